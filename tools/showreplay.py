#!/usr/bin/env python3
import json,sys
r=json.load(open(sys.argv[1]))
print(r['entry'],r['label'],r.get('msg',''))
m=r['model']
for k in sorted(m):
    v=m[k]
    s=v-2**64 if v>=2**63 else v
    print(f"  {k:28s} {s}")
print("  decisions:",r.get('decisions'))
