#!/bin/bash
# run_tier.sh <tier> <logdir> [ids...] : runs the checks of one tier sequentially, one log per property,
# and prints exit code and wall time per property (used to validate registered commands on the unchanged tree).
TIER=$1; LOG=$2; shift 2
mkdir -p $LOG
IDS="$@"
[ -z "$IDS" ] && IDS=$(python3 -c "import json;print(' '.join(json.load(open('/verif/checks.json')).keys()))")
for id in $IDS; do
  s=$(date +%s)
  timeout 3600 /verif/check $id $TIER > $LOG/$id.log 2>&1; rc=$?
  e=$(date +%s)
  echo "$id $TIER exit=$rc wall=$((e-s))s $(grep -c '^VIOLATION' $LOG/$id.log) violations $(grep -c '^KNOWN-FINDING' $LOG/$id.log) known" | tee -a $LOG/SUMMARY.txt
done
