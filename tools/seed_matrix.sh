#!/bin/bash
# seed_matrix.sh [tier] : runs every kept seeded change against its property's check (applies the patch to /repo,
# runs the check, reverts) and prints detected / missed per seed. Must not run while another check is reading /repo.
TIER=${1:-quick}
cd /verif
for d in seeded/*/; do
  s=$(basename $d); id=${s%%-*}
  out=$(tools/seed_check.sh /verif/$d $id $TIER 2>&1 | tail -1)
  want=$(python3 -c "import json;print(json.load(open('/verif/$d/meta.json'))['detected'])")
  echo "$s expected_detected=$want $out"
  git -C /repo checkout -- . 2>/dev/null
done
