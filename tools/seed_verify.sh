#!/bin/bash
# seed_verify.sh <ID> <K> <demo-dest-dir-relative> <go test args...>
# Confirms a seeded change in a scratch worktree of /repo HEAD: demo passes without the patch,
# fails with it; the tree builds; the touched packages' own tests still pass. Then stores it under /verif/seeded/.
set -u
export GOFLAGS=-mod=mod GOPROXY=off GOSUMDB=off GOTOOLCHAIN=local
ID=$1; K=$2; DEST=$3; shift 3
SRC=/tmp/seed/$ID/out/$K
WT=/tmp/seedwt-$ID-$K
git -C /repo worktree remove --force $WT 2>/dev/null
git -C /repo worktree add -q --detach $WT HEAD || exit 2
cd $WT
for f in $SRC/*_test.go; do cp $f $DEST/; done
echo "--- demo WITHOUT patch"; go test -vet=off -count=1 "$@" > /tmp/seedwt-$ID-$K.without.log 2>&1; R0=$?; tail -3 /tmp/seedwt-$ID-$K.without.log
git apply $SRC/patch.diff || { echo "PATCH DOES NOT APPLY"; git -C /repo worktree remove --force $WT; exit 2; }
PKGS=$(git diff --name-only -- "*.go" | xargs -n1 dirname | sort -u | while read d; do if grep -qx "github.com/tikv/pd/$d" /verif/tools/STABLE_TEST_PACKAGES.txt; then echo "./$d"; fi; done)
[ -z "$PKGS" ] && PKGS=./pkg/slice
echo "--- build"; go build ./server/... ./pkg/... ./client/... 2>&1 | grep -v "uiserver\|scheduler_example" | tail -3
echo "--- demo WITH patch"; go test -vet=off -count=1 "$@" > /tmp/seedwt-$ID-$K.with.log 2>&1; R1=$?; tail -5 /tmp/seedwt-$ID-$K.with.log
rm -f $DEST/seed*_test.go
echo "--- existing tests of touched packages with patch: $PKGS"
timeout 900 go test -vet=off -count=1 $PKGS > /tmp/seedwt-$ID-$K.pkg.log 2>&1; R2=$?; tail -4 /tmp/seedwt-$ID-$K.pkg.log
cd /; git -C /repo worktree remove --force $WT
echo "RESULT demo-without=$R0 demo-with=$R1 existing-tests=$R2"
if [ $R0 -eq 0 ] && [ $R1 -ne 0 ] && [ $R2 -eq 0 ]; then
  OUT=/verif/seeded/$ID-$K; mkdir -p $OUT
  cp $SRC/patch.diff $OUT/; cp $SRC/*_test.go $OUT/ 2>/dev/null; cp $SRC/NOTES.txt $OUT/ 2>/dev/null; cp $SRC/DEMO.txt $OUT/ 2>/dev/null
  echo "confirmed -> $OUT"
else
  echo "NOT CONFIRMED"
fi
rm -f /tmp/seedwt-$ID-$K.*.log
