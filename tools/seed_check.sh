#!/bin/bash
# seed_check.sh <seeded-dir> <ID> [tier] : applies the seeded patch to /repo, runs the check, reverts.
D=$1; ID=$2; TIER=${3:-quick}
cd /repo && git apply $D/patch.diff || { echo "patch does not apply"; exit 2; }
cd /verif && VERIF_KEEP_EVIDENCE=1 ./check $ID $TIER > /tmp/seedcheck.log 2>&1; RC=$?
git -C /repo checkout -- . 
grep -E "VIOLATION|KNOWN-FINDING|INCONCLUSIVE|NOT-REPRODUCED|ENGINE-MISMATCH|counterexample" /tmp/seedcheck.log | head -8
echo "check exit=$RC"
