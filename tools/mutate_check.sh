#!/bin/bash
# mutate_check.sh <ID> <entry-filter|""> <file-relative-to-/repo> <old-text> <new-text>
# Applies a one-place textual mutation to /repo, builds, runs the property's quick check (optionally one entry), reverts.
# Prints the exit code and the violated labels. Must not run while another check is reading /repo.
ID=$1; F=$2; FILE=$3; OLD=$4; NEW=$5
cd /repo || exit 2
python3 - "$FILE" "$OLD" "$NEW" <<'PY'
import sys
p,old,new=sys.argv[1:4]
s=open(p).read()
if s.count(old)<1:
    print("PATTERN NOT FOUND"); sys.exit(3)
open(p,'w').write(s.replace(old,new,1))
PY
[ $? -eq 3 ] && exit 3
export GOFLAGS=-mod=mod GOPROXY=off GOSUMDB=off GOTOOLCHAIN=local
go build ./server/... ./client/... 2>&1 | head -3
cd /verif && VERIF_KEEP_EVIDENCE=1 timeout 1200 ./check $ID quick $F > /tmp/mutate_check.log 2>&1; rc=$?
git -C /repo checkout -- .
echo "exit=$rc violations=$(grep -c '^VIOLATION' /tmp/mutate_check.log) $(grep '^VIOLATION' /tmp/mutate_check.log | head -3 | sed 's/.*replay\///' | tr '\n' ' ')"
