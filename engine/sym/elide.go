package sym

import (
	"go/token"
	"go/types"
	"strings"
	"sync"

	"golang.org/x/tools/go/ssa"
)

// Branch elision: `if cond { <only logging / metrics> }`.
// When a branch on a *symbolic* condition guards a block that contains nothing
// but calls into black-holed packages (and the pure computations feeding them)
// and falls through to the other successor, both sides behave identically under
// the stub semantics of DESIGN.md §3.5; the executor then skips the block
// instead of forking. Each elided site is reported in the evidence.

var (
	elideMu    sync.Mutex
	elideCache = map[*ssa.If]*ssa.BasicBlock{}
	elideKnown = map[*ssa.If]bool{}
)

func (in *interp) elidable(instr *ssa.If) *ssa.BasicBlock {
	elideMu.Lock()
	defer elideMu.Unlock()
	if elideKnown[instr] {
		return elideCache[instr]
	}
	elideKnown[instr] = true
	blk := instr.Block()
	for side := 0; side < 2; side++ {
		body, join := blk.Succs[side], blk.Succs[1-side]
		if len(body.Preds) != 1 || body == join {
			continue
		}
		if len(body.Succs) != 1 || body.Succs[0] != join {
			continue
		}
		if !in.holeOnlyBlock(body) {
			continue
		}
		// the join must not distinguish the two incoming edges
		ok := true
		bi, ji := -1, -1
		for i, p := range join.Preds {
			if p == body {
				bi = i
			}
			if p == blk {
				ji = i
			}
		}
		for _, ins := range join.Instrs {
			phi, isPhi := ins.(*ssa.Phi)
			if !isPhi {
				break
			}
			if bi < 0 || ji < 0 || phi.Edges[bi] != phi.Edges[ji] {
				ok = false
			}
		}
		if ok {
			elideCache[instr] = join
			return join
		}
	}
	return nil
}

func (in *interp) holeOnlyBlock(b *ssa.BasicBlock) bool {
	cfg := in.x.cfg
	local := map[ssa.Value]bool{}
	for _, ins := range b.Instrs {
		switch ins := ins.(type) {
		case *ssa.Jump, *ssa.DebugRef:
		case *ssa.Alloc:
			local[ins] = true
		case *ssa.IndexAddr:
			if a, ok := ins.X.(*ssa.Alloc); ok && local[a] {
				local[ins] = true
			} else {
				return false
			}
		case *ssa.Store:
			if !local[ins.Addr] {
				return false
			}
		case *ssa.Slice:
			if a, ok := ins.X.(*ssa.Alloc); !ok || !local[a] {
				return false
			}
		case *ssa.MakeInterface, *ssa.Convert, *ssa.ChangeType, *ssa.ChangeInterface, *ssa.Field, *ssa.Extract:
		case *ssa.BinOp:
			if ins.Op == token.QUO || ins.Op == token.REM {
				if _, ok := ins.Y.(*ssa.Const); !ok {
					return false
				}
			}
		case *ssa.UnOp:
			if ins.Op == token.ARROW {
				return false
			}
			if ins.Op == token.MUL {
				// loads are allowed only from globals (metric vectors) and locals
				switch ins.X.(type) {
				case *ssa.Global, *ssa.Alloc, *ssa.FieldAddr:
				default:
					return false
				}
			}
		case *ssa.FieldAddr:
		case *ssa.Call:
			cc := ins.Call
			if cc.IsInvoke() {
				if !cfg.isHolePkg(pkgPathOfType(cc.Value.Type())) {
					return false
				}
				continue
			}
			callee := cc.StaticCallee()
			if callee == nil {
				return false
			}
			p := fnPkgPath(callee)
			if cfg.isHolePkg(p) {
				continue
			}
			if p == "time" && callee.Signature.Recv() != nil && strings.HasSuffix(callee.Signature.Recv().Type().String(), "time.Duration") {
				continue
			}
			if p == "time" && callee.Signature.Recv() != nil && (callee.Name() == "UnixNano" || callee.Name() == "Unix") {
				continue
			}
			return false
		default:
			return false
		}
	}
	return true
}

var _ = types.Typ
