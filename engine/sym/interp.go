package sym

import (
	"fmt"
	"go/token"
	"go/types"
	"runtime"
	"slices"
	"strings"

	"gosmt/smt"

	"golang.org/x/tools/go/ssa"
)

type continuation int

const (
	kNext continuation = iota
	kReturn
	kJump
)

type deferred struct {
	fn    value
	args  []value
	instr *ssa.Defer
	tail  *deferred
}

type frame struct {
	in               *interp
	caller           *frame
	fn               *ssa.Function
	block, prevBlock *ssa.BasicBlock
	env              map[ssa.Value]value
	locals           []value
	defers           *deferred
	result           value
	panicking        bool
	panic            interface{}
	phitemps         []value
	callpos          token.Pos
}

// interp is the state of one path execution.
type interp struct {
	x       *Explorer
	prog    *ssa.Program
	globals map[*ssa.Global]*value
	inited  map[*ssa.Package]bool
	ctx     *smt.Ctx
	solver  *smt.Solver

	// path
	prefix   []Decision
	pos      int
	trace    []Decision
	pc       []*smt.Term
	pcSet    map[int]bool
	order    map[int][]orderEdge
	succDone map[int]bool
	model    map[string]uint64 // a model of the current path condition, or nil
	pending  []pendingAssert
	steps    int
	dead     bool
	nondetN  map[string]int
	nondets  []nondet
	observes []observation
	reached  map[string]bool
	asserts  []assertRec
	funcs    map[*ssa.Function]bool
	skippedGo []string

	// threads
	threads   []*thread
	cur       *thread
	preempts  int
	locks     map[*value]*lockState
	schedLog  []int
	interferer      value
	interfereDone   bool
	inInterferer    bool
	interferePoints int
	inInit          int
	fixedClock      value // int64 or *Sym; nil = symbolic readings
	allowInit       *ssa.Package

	// misc model state
	clockN   int
	lastMono *smt.Term
	timeLoc  *value
	errTypes map[string]types.Type
	idCtr    int
	curFrame *frame
}

func (fr *frame) get(key ssa.Value) value {
	switch key := key.(type) {
	case nil:
		return nil
	case *ssa.Function, *ssa.Builtin:
		return key
	case *ssa.Const:
		return constValue(key)
	case *ssa.Global:
		return fr.in.global(key)
	}
	if r, ok := fr.env[key]; ok {
		return r
	}
	panic(fmt.Sprintf("get: no value for %T: %v", key, key.Name()))
}

// global returns the address of a global, initialising its package on demand.
func (in *interp) global(g *ssa.Global) *value {
	if r, ok := in.globals[g]; ok {
		return r
	}
	pkg := g.Pkg
	in.initPackageGlobals(pkg)
	if !in.x.cfg.shouldInit(pkg.Pkg.Path()) {
		// zero value of a global whose package initialiser is not run: recorded in the evidence
		in.x.mu.Lock()
		in.x.foreignGlobals[pkg.Pkg.Path()+"."+g.Name()] = true
		in.x.mu.Unlock()
	}
	if in.x.cfg.shouldInit(pkg.Pkg.Path()) && !in.inited[pkg] {
		if initFn := pkg.Func("init"); initFn != nil {
			in.allowInit = pkg
			in.call(nil, token.NoPos, initFn, nil)
		}
	}
	return in.globals[g]
}

func (in *interp) initPackageGlobals(pkg *ssa.Package) {
	for _, m := range pkg.Members {
		if g, ok := m.(*ssa.Global); ok {
			if _, ok := in.globals[g]; !ok {
				cell := zero(deref(g.Type()))
				in.globals[g] = &cell
			}
		}
	}
}

func (fr *frame) runDefer(d *deferred) {
	var ok bool
	defer func() {
		if !ok {
			p := recover()
			if isAbort(p) {
				panic(p)
			}
			fr.panicking = true
			fr.panic = p
		}
	}()
	fr.in.call(fr, d.instr.Pos(), d.fn, d.args)
	ok = true
}

func isAbort(p interface{}) bool {
	switch p.(type) {
	case abortPath, killThread:
		return true
	}
	return false
}

func (fr *frame) runDefers() {
	for d := fr.defers; d != nil; d = d.tail {
		fr.runDefer(d)
	}
	fr.defers = nil
	if fr.panicking {
		panic(fr.panic)
	}
}

func (in *interp) lookupMethod(typ types.Type, meth *types.Func) *ssa.Function {
	return in.prog.LookupMethod(typ, meth.Pkg(), meth.Name())
}

// truth resolves a Boolean value to a concrete bool, forking if symbolic.
func (in *interp) truth(v value) bool {
	switch v := v.(type) {
	case bool:
		return v
	case *Sym:
		return in.decide(v.T)
	case poison:
		unsupported("branch on a value that could not be computed symbolically (%s)", v.why)
	}
	panic(fmt.Sprintf("truth: %T", v))
}

func (in *interp) visitInstr(fr *frame, instr ssa.Instruction) continuation {
	switch instr := instr.(type) {
	case *ssa.DebugRef:

	case *ssa.UnOp:
		fr.env[instr] = in.unop(instr, fr.get(instr.X))

	case *ssa.BinOp:
		fr.env[instr] = in.binop(instr.Op, instr.X.Type(), fr.get(instr.X), fr.get(instr.Y))

	case *ssa.Call:
		fn, args, holeCall := in.prepareCall(fr, &instr.Call)
		if holeCall {
			fr.env[instr] = in.holeResult(instr.Call.Signature().Results())
		} else {
			fr.env[instr] = in.call(fr, instr.Pos(), fn, args)
		}

	case *ssa.ChangeInterface:
		fr.env[instr] = fr.get(instr.X)

	case *ssa.ChangeType:
		fr.env[instr] = fr.get(instr.X)

	case *ssa.Convert:
		fr.env[instr] = in.conv(instr.Type(), instr.X.Type(), fr.get(instr.X))

	case *ssa.SliceToArrayPointer:
		unsupported("SliceToArrayPointer")

	case *ssa.MakeInterface:
		fr.env[instr] = iface{t: instr.X.Type(), v: fr.get(instr.X)}

	case *ssa.Extract:
		fr.env[instr] = fr.get(instr.Tuple).(tuple)[instr.Index]

	case *ssa.Slice:
		fr.env[instr] = in.slice(fr.get(instr.X), fr.get(instr.Low), fr.get(instr.High), fr.get(instr.Max))

	case *ssa.Return:
		switch len(instr.Results) {
		case 0:
		case 1:
			fr.result = fr.get(instr.Results[0])
		default:
			var res []value
			for _, r := range instr.Results {
				res = append(res, fr.get(r))
			}
			fr.result = tuple(res)
		}
		fr.block = nil
		return kReturn

	case *ssa.RunDefers:
		fr.runDefers()

	case *ssa.Panic:
		panic(targetPanic{fr.get(instr.X)})

	case *ssa.Send:
		in.chanSend(fr.get(instr.Chan).(*channel), fr.get(instr.X))

	case *ssa.Store:
		p := fr.get(instr.Addr).(*value)
		if p == nil {
			panic("runtime error: invalid memory address or nil pointer dereference")
		}
		store(deref(instr.Addr.Type()), p, fr.get(instr.Val))

	case *ssa.If:
		cond := fr.get(instr.Cond)
		if _, symbolic := cond.(*Sym); symbolic && !in.x.cfg.NoElide {
			if join := in.elidable(instr); join != nil {
				in.x.noteElided(instr)
				fr.prevBlock, fr.block = fr.block, join
				return kJump
			}
		}
		succ := 1
		if in.truth(cond) {
			succ = 0
		}
		fr.prevBlock, fr.block = fr.block, fr.block.Succs[succ]
		return kJump

	case *ssa.Jump:
		fr.prevBlock, fr.block = fr.block, fr.block.Succs[0]
		return kJump

	case *ssa.Defer:
		fn, args, holeCall := in.prepareCall(fr, &instr.Call)
		if holeCall {
			break
		}
		defers := &fr.defers
		if into := fr.get(instr.DeferStack); into != nil {
			defers = into.(**deferred)
		}
		*defers = &deferred{fn: fn, args: args, instr: instr, tail: *defers}

	case *ssa.Go:
		fn, args, holeCall := in.prepareCall(fr, &instr.Call)
		if holeCall {
			break
		}
		in.goStmt(fr, instr, fn, args)

	case *ssa.MakeChan:
		fr.env[instr] = &channel{cap: int(in.concInt(fr.get(instr.Size)))}

	case *ssa.Alloc:
		var addr *value
		if instr.Heap {
			addr = new(value)
			fr.env[instr] = addr
		} else {
			addr = fr.env[instr].(*value)
		}
		*addr = zero(deref(instr.Type()))

	case *ssa.MakeSlice:
		c := in.concInt(fr.get(instr.Cap))
		l := in.concInt(fr.get(instr.Len))
		if l < 0 || c < l {
			panic("runtime error: makeslice: len out of range")
		}
		if c > 1<<24 {
			unsupported("makeslice of %d elements", c)
		}
		sl := make([]value, c)
		tElt := instr.Type().Underlying().(*types.Slice).Elem()
		for i := range sl {
			sl[i] = zero(tElt)
		}
		fr.env[instr] = sl[:l]

	case *ssa.MakeMap:
		fr.env[instr] = newOmap(instr.Type().Underlying().(*types.Map).Key())

	case *ssa.Range:
		fr.env[instr] = in.rangeIter(fr.get(instr.X), instr.X.Type())

	case *ssa.Next:
		fr.env[instr] = fr.get(instr.Iter).(iter).next(in)

	case *ssa.FieldAddr:
		p := fr.get(instr.X).(*value)
		if p == nil {
			panic("runtime error: invalid memory address or nil pointer dereference")
		}
		fr.env[instr] = &(*p).(structure)[instr.Field]

	case *ssa.Field:
		fr.env[instr] = copyVal(fr.get(instr.X).(structure)[instr.Field])

	case *ssa.IndexAddr:
		x := fr.get(instr.X)
		idx := fr.get(instr.Index)
		switch x := x.(type) {
		case []value:
			fr.env[instr] = &x[in.pickIndex(idx, len(x))]
		case *value:
			if x == nil {
				panic("runtime error: invalid memory address or nil pointer dereference")
			}
			a := (*x).(array)
			fr.env[instr] = &a[in.pickIndex(idx, len(a))]
		default:
			panic(fmt.Sprintf("unexpected x type in IndexAddr: %T", x))
		}

	case *ssa.Index:
		fr.env[instr] = in.index(fr.get(instr.X), fr.get(instr.Index))

	case *ssa.Lookup:
		fr.env[instr] = in.lookup(instr, fr.get(instr.X), fr.get(instr.Index))

	case *ssa.MapUpdate:
		m := fr.get(instr.Map).(*omap)
		if m == nil {
			panic("assignment to entry in nil map")
		}
		in.mapInsert(m, fr.get(instr.Key), copyVal(fr.get(instr.Value)))

	case *ssa.TypeAssert:
		fr.env[instr] = in.typeAssert(instr, fr.get(instr.X).(iface))

	case *ssa.MakeClosure:
		var bindings []value
		for _, binding := range instr.Bindings {
			bindings = append(bindings, fr.get(binding))
		}
		fr.env[instr] = &closure{instr.Fn.(*ssa.Function), bindings}

	case *ssa.Select:
		fr.env[instr] = in.selectStmt(fr, instr)

	default:
		panic(fmt.Sprintf("unexpected instruction: %T", instr))
	}
	return kNext
}

// prepareCall determines the function value and arguments. holeCall is true
// when the call goes to a black-holed package or value.
func (in *interp) prepareCall(fr *frame, call *ssa.CallCommon) (fn value, args []value, holeCall bool) {
	v := fr.get(call.Value)
	if call.Method == nil {
		fn = v
	} else {
		recv := v.(iface)
		if recv.t == nil {
			if in.x.cfg.isHolePkg(pkgPathOfType(call.Value.Type())) {
				return nil, nil, true
			}
			panic("runtime error: invalid memory address or nil pointer dereference (method " + call.Method.Name() + " invoked on nil interface)")
		}
		if _, ok := recv.v.(hole); ok {
			return nil, nil, true
		}
		if rb, ok := recv.v.(rtypeBox); ok {
			name := call.Method.Name()
			return &hostFunc{name: "reflect.Type." + name, f: func(in *interp, args []value) value { return rtypeMethod(rb, name) }}, nil, false
		}
		f := in.lookupMethod(recv.t, call.Method)
		if f == nil {
			panic(fmt.Sprintf("method set for dynamic type %v does not contain %s", recv.t, call.Method))
		}
		fn = f
		args = append(args, recv.v)
	}
	for _, arg := range call.Args {
		args = append(args, fr.get(arg))
	}
	return
}

func pkgPathOfType(t types.Type) string {
	switch t := t.(type) {
	case *types.Named:
		if t.Obj().Pkg() != nil {
			return t.Obj().Pkg().Path()
		}
	case *types.Pointer:
		return pkgPathOfType(t.Elem())
	case *types.Alias:
		return pkgPathOfType(types.Unalias(t))
	}
	return ""
}

// holeResult fabricates the result of a black-holed call.
func (in *interp) holeResult(res *types.Tuple) value {
	mk := func(t types.Type) value {
		switch u := t.Underlying().(type) {
		case *types.Interface:
			if types.Identical(t, types.Universe.Lookup("error").Type()) {
				return iface{}
			}
			return iface{t: holeType, v: hole{}}
		case *types.Pointer:
			if _, ok := u.Elem().Underlying().(*types.Struct); ok {
				cell := zero(u.Elem())
				return &cell
			}
		case *types.Signature:
			return (*ssa.Function)(nil)
		}
		return zero(t)
	}
	switch res.Len() {
	case 0:
		return nil
	case 1:
		return mk(res.At(0).Type())
	}
	out := make(tuple, res.Len())
	for i := range out {
		out[i] = mk(res.At(i).Type())
	}
	return out
}

var holeType = types.NewNamed(types.NewTypeName(token.NoPos, nil, "zzhole", nil), types.NewStruct(nil, nil), nil)

func (in *interp) call(caller *frame, callpos token.Pos, fn value, args []value) value {
	switch fn := fn.(type) {
	case *ssa.Function:
		if fn == nil {
			panic("runtime error: invalid memory address or nil pointer dereference (call of nil func)")
		}
		return in.callSSA(caller, callpos, fn, args, nil)
	case *closure:
		if fn == nil {
			panic("runtime error: invalid memory address or nil pointer dereference (call of nil func)")
		}
		return in.callSSA(caller, callpos, fn.Fn, args, fn.Env)
	case *ssa.Builtin:
		return in.callBuiltin(caller, callpos, fn, args)
	case *hostFunc:
		return fn.f(in, args)
	}
	panic(fmt.Sprintf("cannot call %T", fn))
}

func fnPkgPath(fn *ssa.Function) string {
	if fn.Pkg != nil {
		return fn.Pkg.Pkg.Path()
	}
	if o := fn.Object(); o != nil && o.Pkg() != nil {
		return o.Pkg().Path()
	}
	if fn.Origin() != nil {
		return fnPkgPath(fn.Origin())
	}
	if p := fn.Parent(); p != nil {
		return fnPkgPath(p)
	}
	// wrappers / bound methods: derive from the receiver type
	if fn.Signature.Recv() != nil {
		return pkgPathOfType(fn.Signature.Recv().Type())
	}
	if len(fn.Params) > 0 {
		return pkgPathOfType(fn.Params[0].Type())
	}
	return ""
}

func (in *interp) callSSA(caller *frame, callpos token.Pos, fn *ssa.Function, args []value, env []value) value {
	name := fn.String()
	if fn.Parent() == nil {
		if ext := intrinsics[name]; ext != nil {
			fr := &frame{in: in, caller: caller, fn: fn, callpos: callpos}
			in.noteFunc(fn)
			return ext(fr, args)
		}
	}
	path := fnPkgPath(fn)
	cfg := in.x.cfg
	if r, ok := in.protoMethod(fn, args); ok {
		return r
	}
	if kind, ok := cfg.Stubs[name]; ok {
		in.x.mu.Lock()
		in.x.stubsUsed[name+" => "+kind] = true
		in.x.mu.Unlock()
		if kind == "true" {
			return true
		}
		return zero(fn.Signature.Results())
	}
	if fn.Name() == "init" && fn.Signature.Recv() == nil && fn.Parent() == nil && fn.Pkg != nil && fn.Synthetic == "package initializer" {
		// Package initialisers run lazily, when a global of the package is first
		// touched (see global); the calls an initialiser makes to the initialisers
		// of its imports are skipped for the same reason.
		if in.allowInit != fn.Pkg || !cfg.shouldInit(path) || in.inited[fn.Pkg] {
			return nil
		}
		in.allowInit = nil
		in.inited[fn.Pkg] = true
		in.initPackageGlobals(fn.Pkg)
		in.inInit++
		defer func() { in.inInit-- }()
	}
	if cfg.isHolePkg(path) {
		return in.holeResult(fn.Signature.Results())
	}
	if strings.HasSuffix(path, "protobuf/proto") && strings.HasPrefix(fn.Name(), "Register") {
		return zero(fn.Signature.Results()) // protobuf type registries are not used by the encoded code
	}
	if !cfg.mayInterpret(path) {
		unsupported("call into package %q (function %s) which is neither modelled nor whitelisted for interpretation", path, name)
	}
	// function bodies of dependency packages are built lazily; Build is
	// idempotent and blocks until a concurrent build has completed
	if fn.Pkg != nil {
		fn.Pkg.Build()
	} else if o := fn.Origin(); o != nil && o.Pkg != nil {
		o.Pkg.Build()
	}
	if fn.Blocks == nil {
		unsupported("no code for function %s", name)
	}
	in.noteFunc(fn)
	if fn.TypeParams().Len() > 0 && len(fn.TypeArgs()) == 0 {
		unsupported("uninstantiated generic function %s", name)
	}
	fr := &frame{in: in, caller: caller, fn: fn, callpos: callpos}
	fr.env = make(map[ssa.Value]value)
	fr.block = fn.Blocks[0]
	fr.locals = make([]value, len(fn.Locals))
	for i, l := range fn.Locals {
		fr.locals[i] = zero(deref(l.Type()))
		fr.env[l] = &fr.locals[i]
	}
	for i, p := range fn.Params {
		fr.env[p] = args[i]
	}
	for i, fv := range fn.FreeVars {
		fr.env[fv] = env[i]
	}
	saved := in.curFrame
	in.curFrame = fr
	for fr.block != nil {
		in.runFrame(fr)
	}
	in.curFrame = saved
	return fr.result
}

func (in *interp) noteFunc(fn *ssa.Function) {
	if in.funcs != nil {
		in.funcs[fn] = true
	}
}

func (in *interp) runFrame(fr *frame) {
	defer func() {
		if fr.block == nil {
			return // normal return
		}
		p := recover()
		if isAbort(p) {
			panic(p)
		}
		if re, ok := p.(runtime.Error); ok {
			// host runtime error inside the executor: surface with a stack hint
			p = "runtime error (executor): " + re.Error() + " in " + fr.fn.String()
			if in.x.cfg.Debug {
				buf := make([]byte, 1<<14)
				n := runtime.Stack(buf, false)
				p = p.(string) + "\n" + string(buf[:n])
			}
		}
		fr.panicking = true
		fr.panic = p
		fr.runDefers()
		fr.block = fr.fn.Recover
	}()

	for {
		nonPhis := executePhis(fr)
		for _, instr := range nonPhis {
			in.steps++
			if in.steps > in.x.cfg.MaxSteps {
				panic(abortPath{"BUDGET", fmt.Sprintf("instruction budget of %d exceeded in %s", in.x.cfg.MaxSteps, fr.fn)})
			}
			if in.x.cfg.Trace {
				fmt.Fprintf(in.x.traceW, "%s: %v\n", fr.fn, instr)
			}
			if in.visitInstr(fr, instr) == kReturn {
				return
			}
		}
	}
}

func executePhis(fr *frame) []ssa.Instruction {
	firstNonPhi := -1
	for i, instr := range fr.block.Instrs {
		if _, ok := instr.(*ssa.Phi); !ok {
			firstNonPhi = i
			break
		}
	}
	nonPhis := fr.block.Instrs[firstNonPhi:]
	if firstNonPhi > 0 {
		phis := fr.block.Instrs[:firstNonPhi]
		predIndex := slices.Index(fr.block.Preds, fr.prevBlock)
		fr.phitemps = fr.phitemps[:0]
		for _, phi := range phis {
			phi := phi.(*ssa.Phi)
			fr.phitemps = append(fr.phitemps, fr.get(phi.Edges[predIndex]))
		}
		for i, phi := range phis {
			fr.env[phi.(*ssa.Phi)] = fr.phitemps[i]
		}
	}
	return nonPhis
}

func doRecover(caller *frame) value {
	if caller != nil && !caller.panicking &&
		caller.caller != nil && caller.caller.panicking {
		caller.caller.panicking = false
		p := caller.caller.panic
		caller.caller.panic = nil
		switch p := p.(type) {
		case targetPanic:
			return p.v
		case string:
			return iface{types.Typ[types.String], p}
		default:
			return iface{types.Typ[types.String], fmt.Sprint(p)}
		}
	}
	return iface{}
}

// where describes the current source position for diagnostics.
func (in *interp) where() string {
	fr := in.curFrame
	var parts []string
	for i := 0; fr != nil && i < 6; i++ {
		parts = append(parts, fr.fn.String())
		fr = fr.caller
	}
	return strings.Join(parts, " <- ")
}
