package sym

import (
	"fmt"
	"go/token"
	"io"
	"os"
	"sort"
	"strings"
	"sync"
	"time"

	"gosmt/smt"

	"golang.org/x/tools/go/ssa"
)

// Decision is one recorded nondeterministic choice on a path.
type Decision struct {
	Kind  byte   // 'b' branch on a symbolic condition, 'c' free choice among N, 'e' enumeration of a value
	Taken bool   // for 'b' and 'e'
	Val   uint64 // for 'c' the alternative index, for 'e' the enumerated value
	N     int    // for 'c' the number of alternatives
}

func (d Decision) String() string {
	switch d.Kind {
	case 'b':
		if d.Taken {
			return "T"
		}
		return "F"
	case 'c':
		return fmt.Sprintf("c%d/%d", d.Val, d.N)
	default:
		if d.Taken {
			return fmt.Sprintf("e=%d", d.Val)
		}
		return fmt.Sprintf("e!=%d", d.Val)
	}
}

// Config controls one exploration.
type Config struct {
	Backend      string // solver kind, see smt.NewSolver
	TimeoutMs    int
	Workers      int
	MaxSteps     int // instructions per path
	MaxDecisions int // decisions per path (unwinding bound on symbolic loops)
	MaxPaths     int
	// TimeBudget: wall-clock limit for one entry (0 = none); exceeding it makes the entry inconclusive
	TimeBudget time.Duration
	MaxPreempt   int
	Trace        bool
	Debug        bool
	HolePkgs     []string // package path prefixes whose functions are black-holed
	InterpPkgs   []string // package path prefixes that may be interpreted from source
	InitPkgs     []string // package path prefixes whose init functions are run
	InlineGo     []string // callee name substrings of go statements that run inline
	Params       map[string]int // harness bounds (zzvrf.Param)
	Pin          map[string]uint64 // concrete values for nondeterministic inputs (validation mode)
	SampleEvery  int // keep a model for cross-validation every N completed paths
	Seed         int
	NoSchedPkgs  []string // synchronisation calls made by functions of these packages are not scheduling points
	NoElide      bool // disable elision of logging-only branches
	Stubs        map[string]string // function name -> "zero": body replaced by returning zero values (listed in evidence)
}

func hasPrefixAny(s string, ps []string) bool {
	for _, p := range ps {
		if strings.HasSuffix(p, "$") { // exact package path
			if s == p[:len(p)-1] {
				return true
			}
			continue
		}
		if s == p || strings.HasPrefix(s, p) {
			return true
		}
	}
	return false
}

func (c *Config) isHolePkg(path string) bool    { return path != "" && hasPrefixAny(path, c.HolePkgs) }
func (c *Config) mayInterpret(path string) bool { return path == "" || hasPrefixAny(path, c.InterpPkgs) }
func (c *Config) shouldInit(path string) bool   { return hasPrefixAny(path, c.InitPkgs) }

type nondet struct {
	Name string
	T    *smt.Term
}

type observation struct {
	Label string
	V     value
}

type assertRec struct {
	Label  string
	Result string // "discharged", "trivial", "violated", "unknown"
}

// Violation is a counterexample to an assertion (or an unexpected panic).
type Violation struct {
	Label     string            `json:"label"`
	Kind      string            `json:"kind"` // "assert" or "panic"
	Msg       string            `json:"msg,omitempty"`
	Model     map[string]uint64 `json:"model"`
	Decisions string            `json:"decisions"`
	Sched     []int             `json:"sched,omitempty"`
	Where     string            `json:"where,omitempty"`
}

// PathSample is a completed path with a model, used for cross-validation
// against a native run of the same harness.
type PathSample struct {
	Model    map[string]uint64 `json:"model"`
	Observed []string          `json:"observed"`
	Sched    []int             `json:"sched,omitempty"`
	Decisions string           `json:"decisions"`
}

// Result summarises the exploration of one harness entry.
type Result struct {
	Entry         string
	Paths         int // completed feasible paths
	Infeasible    int // paths cut by an unsatisfiable assumption
	Aborted       map[string]int // kind -> count (UNSUPPORTED, BUDGET, UNWIND, DEADLOCK)
	AbortMsgs     []string
	Decisions     int
	Obligations   int // assertion evaluations sent to the solver
	Discharged    int
	Trivial       int // assertion evaluations that were constant true
	Unknown       int
	UnknownBranch int
	Queries       int
	SolverTime    time.Duration
	ModelTime     time.Duration
	Models        int
	SolverErrors  int
	LastSolverErr string
	Violations    []Violation
	Reached       map[string]int
	AssertSites   map[string]int // label -> evaluations on feasible paths
	Funcs         []string
	SkippedGo     []string
	StubsUsed     []string
	ForeignGlobals []string
	Elided        []string
	Samples       []PathSample
	SampleObligs  []string
	Wall          time.Duration
	PathLimitHit  bool
	TimeLimitHit  bool
}

// Explorer runs one entry function over all paths.
type Explorer struct {
	cfg    *Config
	prog   *ssa.Program
	entry  *ssa.Function
	traceW io.Writer

	mu      sync.Mutex
	work    [][]Decision
	active  int
	cond    *sync.Cond
	res     *Result
	funcs   map[string]bool
	skipGo  map[string]bool
	t0      time.Time
	stubsUsed map[string]bool
	foreignGlobals map[string]bool
	elided  map[string]bool
	npaths  int
	stop    bool
}

func NewExplorer(prog *ssa.Program, entry *ssa.Function, cfg *Config) *Explorer {
	x := &Explorer{cfg: cfg, prog: prog, entry: entry, traceW: os.Stderr}
	x.cond = sync.NewCond(&x.mu)
	x.funcs = map[string]bool{}
	x.skipGo = map[string]bool{}
	x.stubsUsed = map[string]bool{}
	x.foreignGlobals = map[string]bool{}
	x.elided = map[string]bool{}
	x.res = &Result{Entry: entry.Name(), Aborted: map[string]int{}, Reached: map[string]int{}, AssertSites: map[string]int{}}
	return x
}

func (x *Explorer) Run() *Result {
	t0 := time.Now()
	x.t0 = t0
	x.work = [][]Decision{nil}
	nw := x.cfg.Workers
	if nw <= 0 {
		nw = 1
	}
	var wg sync.WaitGroup
	for w := 0; w < nw; w++ {
		wg.Add(1)
		go func() {
			defer wg.Done()
			x.worker()
		}()
	}
	wg.Wait()
	for f := range x.funcs {
		x.res.Funcs = append(x.res.Funcs, f)
	}
	sort.Strings(x.res.Funcs)
	for f := range x.skipGo {
		x.res.SkippedGo = append(x.res.SkippedGo, f)
	}
	sort.Strings(x.res.SkippedGo)
	for f := range x.stubsUsed {
		x.res.StubsUsed = append(x.res.StubsUsed, f)
	}
	sort.Strings(x.res.StubsUsed)
	for f := range x.foreignGlobals {
		x.res.ForeignGlobals = append(x.res.ForeignGlobals, f)
	}
	sort.Strings(x.res.ForeignGlobals)
	for f := range x.elided {
		x.res.Elided = append(x.res.Elided, f)
	}
	sort.Strings(x.res.Elided)
	x.res.Wall = time.Since(t0)
	return x.res
}

func (x *Explorer) worker() {
	solver, err := smt.NewSolver(x.cfg.Backend, x.cfg.TimeoutMs)
	if err != nil {
		panic(err)
	}
	defer func() {
		x.mu.Lock()
		x.res.Queries += solver.Queries
		x.res.SolverTime += solver.Time
		x.res.ModelTime += solver.ModelTime
		x.res.Models += solver.Models
		x.res.SolverErrors += solver.Errors
		if solver.LastErr != "" {
			x.res.LastSolverErr = solver.LastErr
		}
		x.mu.Unlock()
		solver.Close()
	}()
	if x.cfg.Debug && os.Getenv("GOSMT_SMTLOG") != "" {
		f, _ := os.Create(os.Getenv("GOSMT_SMTLOG"))
		solver.Log = f
	}
	for {
		x.mu.Lock()
		for len(x.work) == 0 && x.active > 0 && !x.stop {
			x.cond.Wait()
		}
		if len(x.work) == 0 || x.stop {
			x.mu.Unlock()
			x.cond.Broadcast()
			return
		}
		prefix := x.work[len(x.work)-1]
		x.work = x.work[:len(x.work)-1]
		x.active++
		x.npaths++
		if x.cfg.TimeBudget > 0 && time.Since(x.t0) > x.cfg.TimeBudget {
			x.res.TimeLimitHit = true
			x.stop = true
			x.active--
			x.mu.Unlock()
			x.cond.Broadcast()
			return
		}
		if x.cfg.MaxPaths > 0 && x.npaths > x.cfg.MaxPaths {
			x.res.PathLimitHit = true
			x.stop = true
			x.active--
			x.mu.Unlock()
			x.cond.Broadcast()
			return
		}
		x.mu.Unlock()

		x.runPath(solver, prefix)

		x.mu.Lock()
		if os.Getenv("GOSMT_PROGRESS") != "" && x.npaths%100 == 0 {
			fmt.Fprintf(os.Stderr, "progress: started=%d done=%d infeasible=%d queue=%d violations=%d\n", x.npaths, x.res.Paths, x.res.Infeasible, len(x.work), len(x.res.Violations))
		}
		if siteLog != nil && x.npaths%20000 == 0 {
			DumpSites()
		}
		x.active--
		x.mu.Unlock()
		x.cond.Broadcast()
	}
}

func (x *Explorer) push(p []Decision) {
	cp := append([]Decision(nil), p...)
	x.mu.Lock()
	x.work = append(x.work, cp)
	x.mu.Unlock()
	x.cond.Signal()
}

func (x *Explorer) runPath(solver *smt.Solver, prefix []Decision) {
	in := &interp{
		x:       x,
		prog:    x.prog,
		globals: map[*ssa.Global]*value{},
		inited:  map[*ssa.Package]bool{},
		ctx:     smt.NewCtx(),
		solver:  solver,
		prefix:  prefix,
		nondetN: map[string]int{},
		reached: map[string]bool{},
		funcs:   map[*ssa.Function]bool{},
		locks:   map[*value]*lockState{},
	}
	main := &thread{id: 0, wake: make(chan struct{}, 1)}
	in.threads = []*thread{main}
	in.cur = main
	solver.Push()
	outcome, msg := "", ""
	func() {
		defer func() {
			p := recover()
			if p == nil {
				outcome = "done"
				return
			}
			in.dead = true
			in.killThreads()
			switch p := p.(type) {
			case abortPath:
				outcome, msg = p.kind, p.msg
			case killThread:
				outcome, msg = "UNSUPPORTED", "thread killed"
			case targetPanic:
				outcome, msg = "PANIC", toStringPanic(in, p.v)
			case string:
				outcome, msg = "PANIC", p
			case error:
				outcome, msg = "PANIC", p.Error()
			default:
				outcome, msg = "PANIC", fmt.Sprint(p)
			}
		}()
		in.call(nil, token.NoPos, x.entry, nil)
	}()

	if outcome == "done" || outcome == "PANIC" {
		func() {
			defer func() {
				if p := recover(); p != nil {
					outcome, msg = "UNSUPPORTED", fmt.Sprint("while discharging obligations: ", p)
				}
			}()
			in.dischargePending()
		}()
	}
	var viol *Violation
	if outcome == "PANIC" {
		// an uncaught panic on a feasible path is reported like a failed assertion
		if in.pos >= len(in.prefix) {
			model := map[string]uint64{}
			func() {
				defer func() { recover() }()
				if in.ensureModel() {
					model = in.model
				}
			}()
			viol = &Violation{Label: "no-panic", Kind: "panic", Msg: msg, Model: model, Decisions: decString(in.trace), Sched: in.schedLog, Where: in.where()}
		}
	}
	var sample *PathSample
	violatedHere := false
	for _, a := range in.asserts {
		if a.Result == "violated" || a.Result == "unknown" {
			violatedHere = true
		}
	}
	if outcome == "done" && x.cfg.SampleEvery > 0 && !violatedHere {
		x.mu.Lock()
		take := (x.res.Paths < 3 || (x.res.Paths+x.cfg.Seed)%x.cfg.SampleEvery == 0) && len(x.res.Samples) < 64
		x.mu.Unlock()
		// debugging aid: cross-validate exactly the path with this decision string
		if want := os.Getenv("GOSMT_SAMPLE_DECISIONS"); want != "" {
			take = decString(in.trace) == want
		}
		if take {
			if solver.Check() == smt.Sat {
				model := solver.Model(in.ctx.Vars)
				sample = &PathSample{Model: model, Sched: in.schedLog, Decisions: decString(in.trace)}
				memo := map[int]uint64{}
				for _, o := range in.observes {
					sample.Observed = append(sample.Observed, o.Label+"="+in.renderConcrete(o.V, model, memo))
				}
			}
		}
	}
	solver.Pop()

	x.mu.Lock()
	defer x.mu.Unlock()
	r := x.res
	r.Decisions += len(in.trace)
	for fn := range in.funcs {
		x.funcs[fn.String()] = true
	}
	for _, g := range in.skippedGo {
		x.skipGo[g] = true
	}
	if f := os.Getenv("GOSMT_PATHS"); f != "" {
		if fh, err := os.OpenFile(f, os.O_APPEND|os.O_CREATE|os.O_WRONLY, 0o644); err == nil {
			fmt.Fprintf(fh, "%s %s sched=%v\n", outcome, decString(in.trace), in.schedLog)
			fh.Close()
		}
	}
	switch outcome {
	case "done":
		r.Paths++
		for l := range in.reached {
			r.Reached[l]++
		}
	case "INFEASIBLE":
		r.Infeasible++
	case "PANIC":
		r.Paths++
		if viol != nil {
			r.Violations = append(r.Violations, *viol)
		}
	default:
		r.Aborted[outcome]++
		if len(r.AbortMsgs) < 20 {
			r.AbortMsgs = append(r.AbortMsgs, outcome+": "+msg+" @ "+in.where())
		}
	}
	for _, a := range in.asserts {
		r.AssertSites[a.Label]++
		switch a.Result {
		case "trivial":
			r.Trivial++
		case "discharged":
			r.Obligations++
			r.Discharged++
		case "violated":
			r.Obligations++
		case "unknown":
			r.Obligations++
			r.Unknown++
		}
	}
	if sample != nil {
		r.Samples = append(r.Samples, *sample)
	}
}

func toStringPanic(in *interp, v value) string {
	if i, ok := v.(iface); ok {
		if s, ok := i.v.(string); ok {
			return s
		}
		if i.t != nil {
			return fmt.Sprintf("panic(%v): %s", i.t, toString(i.v))
		}
	}
	return toString(v)
}

func decString(ds []Decision) string {
	var sb strings.Builder
	for i, d := range ds {
		if i > 0 {
			sb.WriteByte(' ')
		}
		sb.WriteString(d.String())
	}
	return sb.String()
}

// ---------------------------------------------------------------------------
// decisions

func (in *interp) addPC(t *smt.Term) {
	if in.pcSet == nil {
		in.pcSet = map[int]bool{}
	}
	in.pcSet[t.ID] = true
	if t.Op == "and" {
		for _, a := range t.Args {
			in.pcSet[a.ID] = true
		}
	}
	in.pc = append(in.pc, t)
	in.noteOrder(t)
	if in.model != nil && smt.Eval(t, in.model, map[int]uint64{}) == 0 {
		in.model = nil
	}
	in.solver.Assert(t)
}

func (in *interp) checkWith(t *smt.Term) smt.Result {
	in.solver.Define(t)
	in.solver.Push()
	in.solver.Assert(t)
	r := in.solver.Check()
	in.solver.Pop()
	return r
}

func (in *interp) budget() {
	if len(in.trace) >= in.x.cfg.MaxDecisions {
		panic(abortPath{"UNWIND", fmt.Sprintf("more than %d decisions on one path (unwinding bound)", in.x.cfg.MaxDecisions)})
	}
}

// decide resolves a symbolic condition to a concrete branch side.
var (
	siteMu  sync.Mutex
	siteLog map[string]int
)

func init() {
	if os.Getenv("GOSMT_SITES") != "" {
		siteLog = map[string]int{}
	}
}

// DumpSites prints the fork sites collected under GOSMT_SITES (debugging aid).
func DumpSites() {
	if siteLog == nil {
		return
	}
	type kv struct {
		k string
		n int
	}
	var l []kv
	siteMu.Lock()
	defer siteMu.Unlock()
	for k, n := range siteLog {
		l = append(l, kv{k, n})
	}
	sort.Slice(l, func(i, j int) bool { return l[i].n > l[j].n })
	for i, e := range l {
		if i > 25 {
			break
		}
		fmt.Fprintf(os.Stderr, "site %6d %s\n", e.n, e.k)
	}
}

func (in *interp) decide(c *smt.Term) bool {
	if c.IsConst() {
		return c.Val == 1
	}
	nc := in.ctx.Not(c)
	// syntactic shortcut: the condition (or its negation) is already a conjunct of the path condition
	if in.pcSet[c.ID] {
		return true
	}
	if in.pcSet[nc.ID] {
		return false
	}
	// order shortcut: unsigned comparisons implied by the transitive closure of the
	// comparisons already on the path condition
	if r, ok := in.orderImplied(c); ok {
		return r
	}
	if in.pos < len(in.prefix) {
		d := in.prefix[in.pos]
		in.pos++
		if d.Kind != 'b' {
			panic(abortPath{"NONDETERMINISM", "re-execution diverged from the recorded decision kind (b vs " + string(d.Kind) + ")"})
		}
		in.trace = append(in.trace, d)
		if d.Taken {
			in.addPC(c)
		} else {
			in.addPC(nc)
		}
		return d.Taken
	}
	in.budget()
	if siteLog != nil {
		w := in.where()
		siteMu.Lock()
		siteLog[w]++
		siteMu.Unlock()
	}
	if in.ensureModel() {
		// model-guided: the side the current model takes is feasible for free
		b := smt.Eval(c, in.model, map[int]uint64{}) != 0
		if os.Getenv("GOSMT_DBGMODEL") != "" {
			chosen := c
			if !b {
				chosen = nc
			}
			if in.checkWith(chosen) == smt.Unsat {
				bad := 0
				for _, t := range in.pc {
					if smt.Eval(t, in.model, map[int]uint64{}) == 0 {
						bad++
					}
				}
				fmt.Fprintf(os.Stderr, "decide: model-chosen side is UNSAT: model size %d, violates %d of %d pc conjuncts; cond=%s\n", len(in.model), bad, len(in.pc), c.String())
			}
		}
		other := nc
		if !b {
			other = c
		}
		rO := in.checkWith(other)
		if rO == smt.Unknown {
			in.x.mu.Lock()
			in.x.res.UnknownBranch++
			in.x.mu.Unlock()
		}
		if rO != smt.Unsat {
			alt := append(append([]Decision(nil), in.trace...), Decision{Kind: 'b', Taken: !b})
			in.x.push(alt)
		}
		in.trace = append(in.trace, Decision{Kind: 'b', Taken: b})
		in.pos = len(in.trace)
		in.prefix = in.trace
		if b {
			in.addPC(c)
		} else {
			in.addPC(nc)
		}
		return b
	}
	rT := in.checkWith(c)
	var rF smt.Result
	if rT == smt.Unsat {
		rF = smt.Sat // the path condition itself is satisfiable
	} else {
		rF = in.checkWith(nc)
	}
	if rT == smt.Unknown || rF == smt.Unknown {
		in.x.mu.Lock()
		in.x.res.UnknownBranch++
		in.x.mu.Unlock()
	}
	canT, canF := rT != smt.Unsat, rF != smt.Unsat
	if canT && canF {
		alt := append(append([]Decision(nil), in.trace...), Decision{Kind: 'b', Taken: false})
		in.x.push(alt)
	}
	if !canT && !canF {
		panic(abortPath{"INFEASIBLE", "both branch sides infeasible"})
	}
	take := canT
	in.trace = append(in.trace, Decision{Kind: 'b', Taken: take})
	in.pos = len(in.trace)
	in.prefix = in.trace
	if take {
		in.addPC(c)
	} else {
		in.addPC(nc)
	}
	return take
}

// ensureModel makes in.model a model of the current path condition if possible.
func (in *interp) ensureModel() bool {
	if in.model != nil {
		return true
	}
	r := in.solver.Check()
	if r == smt.Unsat {
		panic(abortPath{"INFEASIBLE", "path condition unsatisfiable"})
	}
	if r != smt.Sat {
		return false
	}
	in.model = in.solver.Model(in.ctx.Vars)
	if os.Getenv("GOSMT_DBGMODEL") != "" {
		bad := 0
		for _, t := range in.pc {
			if smt.Eval(t, in.model, map[int]uint64{}) == 0 {
				bad++
			}
		}
		if bad > 0 {
			fmt.Fprintf(os.Stderr, "ensureModel: fetched model of size %d violates %d of %d pc conjuncts (vars %d)\n", len(in.model), bad, len(in.pc), len(in.ctx.Vars))
		}
	}
	return true
}

// choose picks one of n alternatives; every alternative is explored.
func (in *interp) choose(n int) int {
	if n <= 1 {
		return 0
	}
	if in.pos < len(in.prefix) {
		d := in.prefix[in.pos]
		in.pos++
		if d.Kind != 'c' || d.N != n {
			panic(abortPath{"NONDETERMINISM", "re-execution diverged at a free choice"})
		}
		in.trace = append(in.trace, d)
		return int(d.Val)
	}
	in.budget()
	for i := n - 1; i >= 1; i-- {
		alt := append(append([]Decision(nil), in.trace...), Decision{Kind: 'c', Val: uint64(i), N: n})
		in.x.push(alt)
	}
	in.trace = append(in.trace, Decision{Kind: 'c', Val: 0, N: n})
	in.pos = len(in.trace)
	in.prefix = in.trace
	return 0
}

// enumerate concretises a symbolic scalar: each feasible value is one path.
func (in *interp) enumerate(s *Sym) value {
	w := kindBits(s.K)
	for tries := 0; ; tries++ {
		if tries > 4096 {
			unsupported("enumeration of a symbolic value with more than 4096 feasible values")
		}
		if in.pos < len(in.prefix) {
			d := in.prefix[in.pos]
			in.pos++
			if d.Kind != 'e' {
				panic(abortPath{"NONDETERMINISM", "re-execution diverged at an enumeration"})
			}
			in.trace = append(in.trace, d)
			eq := in.ctx.Eq(s.T, in.ctx.Const(w, d.Val))
			if d.Taken {
				in.addPC(eq)
				return fromBits(s.K, d.Val)
			}
			in.addPC(in.ctx.Not(eq))
			// the alternative item: does any other value exist?
			if in.pos == len(in.prefix) {
				if in.solver.Check() == smt.Unsat {
					panic(abortPath{"INFEASIBLE", "enumeration exhausted"})
				}
			}
			continue
		}
		in.budget()
		if !in.ensureModel() {
			unsupported("solver returned unknown while enumerating a symbolic value")
		}
		val := smt.Eval(s.T, in.model, map[int]uint64{})
		alt := append(append([]Decision(nil), in.trace...), Decision{Kind: 'e', Taken: false, Val: val})
		in.x.push(alt)
		in.trace = append(in.trace, Decision{Kind: 'e', Taken: true, Val: val})
		in.pos = len(in.trace)
		in.prefix = in.trace
		in.addPC(in.ctx.Eq(s.T, in.ctx.Const(w, val)))
		return fromBits(s.K, val)
	}
}

// assume adds c to the path condition and cuts the path if it becomes infeasible.
func (in *interp) assume(c value) {
	switch c := c.(type) {
	case bool:
		if !c {
			panic(abortPath{"INFEASIBLE", "assume(false)"})
		}
	case *Sym:
		in.addPC(c.T)
		if in.pos >= len(in.prefix) && in.model == nil {
			r := in.solver.Check()
			if r == smt.Unsat {
				panic(abortPath{"INFEASIBLE", "assumption unsatisfiable"})
			}
			if r == smt.Sat {
				in.model = in.solver.Model(in.ctx.Vars)
			}
		}
	case poison:
		unsupported("assume on a value that could not be computed symbolically (%s)", c.why)
	}
}

// assertCond records an obligation. Symbolic conditions are discharged at the end
// of the path under the full path condition (every extension of this point is
// some path, so all inputs reaching the assertion are covered); concretely false
// conditions are reported at once.
func (in *interp) assertCond(label string, c value) {
	replaying := in.pos < len(in.prefix)
	switch c := c.(type) {
	case bool:
		if c {
			in.asserts = append(in.asserts, assertRec{label, "trivial"})
			return
		}
		if replaying {
			return
		}
		if !in.ensureModel() {
			// the solver cannot confirm that this path is feasible at all: inconclusive, not a violation
			in.asserts = append(in.asserts, assertRec{label, "unknown"})
			panic(abortPath{"UNKNOWN-PATH", "assertion " + label + " is false on a path whose feasibility the solver could not decide"})
		}
		in.asserts = append(in.asserts, assertRec{label, "violated"})
		in.recordViolation(label, "assert", "")
		return // the path continues: an assertion is an obligation, not an assumption
	case *Sym:
		in.pending = append(in.pending, pendingAssert{label, c.T, in.where()})
	case poison:
		unsupported("assert on a value that could not be computed symbolically (%s)", c.why)
	default:
		panic(fmt.Sprintf("assert: %T", c))
	}
}

type pendingAssert struct {
	label string
	t     *smt.Term
	where string
}

// dischargePending checks all recorded obligations under the final path condition.
func (in *interp) dischargePending() {
	if len(in.pending) == 0 {
		return
	}
	var ts []*smt.Term
	for _, p := range in.pending {
		ts = append(ts, p.t)
	}
	all := in.ctx.And(ts...)
	if all.IsTrue() {
		for _, p := range in.pending {
			in.asserts = append(in.asserts, assertRec{p.label, "trivial"})
		}
		return
	}
	r := in.checkWith(in.ctx.Not(all))
	if r == smt.Unsat {
		for _, p := range in.pending {
			in.asserts = append(in.asserts, assertRec{p.label, "discharged"})
		}
		return
	}
	// some obligation fails (or the solver gave up): look at them one by one
	for _, p := range in.pending {
		if p.t.IsTrue() {
			in.asserts = append(in.asserts, assertRec{p.label, "trivial"})
			continue
		}
		neg := in.ctx.Not(p.t)
		in.solver.Define(neg)
		in.solver.Push()
		in.solver.Assert(neg)
		ri := in.solver.Check()
		switch ri {
		case smt.Unsat:
			in.asserts = append(in.asserts, assertRec{p.label, "discharged"})
		case smt.Sat:
			in.asserts = append(in.asserts, assertRec{p.label, "violated"})
			model := in.solver.Model(in.ctx.Vars)
			v := Violation{Label: p.label, Kind: "assert", Model: model, Decisions: decString(in.trace), Sched: append([]int(nil), in.schedLog...), Where: p.where}
			in.x.mu.Lock()
			in.x.res.Violations = append(in.x.res.Violations, v)
			in.x.mu.Unlock()
		default:
			// the solver gave up within its per-query limit (seen on busy machines): ask again in a fresh
			// process with six times the limit, then with the other kind of back end, before giving up
			// Only "unsat" is taken from the second opinion (it is implied by any subset of the path condition);
			// anything else stays "unknown" and the check is inconclusive as before.
			if rr, _ := in.recheckFresh(neg); rr == smt.Unsat {
				in.asserts = append(in.asserts, assertRec{p.label, "discharged"})
			} else {
				in.asserts = append(in.asserts, assertRec{p.label, "unknown"})
			}
		}
		in.solver.Pop()
	}
}

// recheckFresh decides pc && t in a new solver process with a larger time limit (same back end first, then
// a bit-vector / integer-encoding alternative).
func (in *interp) recheckFresh(t *smt.Term) (smt.Result, map[string]uint64) {
	backends := []string{in.x.cfg.Backend, "z3"}
	if in.x.cfg.Backend == "z3" || in.x.cfg.Backend == "z3new" {
		backends[1] = "cvc5int"
	}
	for _, b := range backends {
		s, err := smt.NewSolver(b, in.x.cfg.TimeoutMs*6)
		if err != nil {
			continue
		}
		for _, c := range in.pc {
			s.Define(c)
			s.Assert(c)
		}
		s.Define(t)
		s.Assert(t)
		r := s.Check()
		var model map[string]uint64
		if r == smt.Sat {
			model = s.Model(in.ctx.Vars)
		}
		in.x.mu.Lock()
		in.x.res.Queries++
		in.x.mu.Unlock()
		s.Close()
		if r == smt.Sat || r == smt.Unsat {
			return r, model
		}
	}
	return smt.Unknown, nil
}

func (in *interp) checkWithModel(t *smt.Term, label string) smt.Result {
	in.solver.Define(t)
	in.solver.Push()
	in.solver.Assert(t)
	r := in.solver.Check()
	if r == smt.Sat {
		in.recordViolationLocked(label, "assert", "")
	}
	in.solver.Pop()
	return r
}

func (in *interp) recordViolationLocked(label, kind, msg string) {
	model := in.solver.Model(in.ctx.Vars)
	if os.Getenv("GOSMT_DBGMODEL") != "" {
		fmt.Fprintf(os.Stderr, "recordViolation %s: model size %d vars %d pc %d\n", label, len(model), len(in.ctx.Vars), len(in.pc))
		for _, t := range in.pc {
			fmt.Fprintf(os.Stderr, "  pc eval=%d %s\n", smt.Eval(t, model, map[int]uint64{}), t.String())
		}
	}
	v := Violation{Label: label, Kind: kind, Msg: msg, Model: model, Decisions: decString(in.trace), Sched: append([]int(nil), in.schedLog...), Where: in.where()}
	in.x.mu.Lock()
	in.x.res.Violations = append(in.x.res.Violations, v)
	in.x.mu.Unlock()
}

func (in *interp) recordViolation(label, kind, msg string) {
	model := map[string]uint64{}
	if in.ensureModel() {
		model = in.model
	}
	if os.Getenv("GOSMT_DBGMODEL") != "" {
		fmt.Fprintf(os.Stderr, "recordViolation %s: model size %d vars %d pc %d replaying=%v\n", label, len(model), len(in.ctx.Vars), len(in.pc), in.pos < len(in.prefix))
		for _, t := range in.pc {
			str := t.String()
			if len(str) > 150 {
				str = str[:150]
			}
			fmt.Fprintf(os.Stderr, "  pc eval=%d %s\n", smt.Eval(t, model, map[int]uint64{}), str)
		}
	}
	v := Violation{Label: label, Kind: kind, Msg: msg, Model: model, Decisions: decString(in.trace), Sched: append([]int(nil), in.schedLog...), Where: in.where()}
	in.x.mu.Lock()
	in.x.res.Violations = append(in.x.res.Violations, v)
	in.x.mu.Unlock()
}

// renderConcrete prints v with symbolic parts evaluated under the model.
func (in *interp) renderConcrete(v value, model map[string]uint64, memo map[int]uint64) string {
	switch v := v.(type) {
	case *Sym:
		b := smt.Eval(v.T, model, memo)
		return fmt.Sprint(fromBits(v.K, b))
	case symstr:
		buf := make([]byte, len(v.b))
		for i, c := range v.b {
			switch c := c.(type) {
			case uint8:
				buf[i] = c
			case *Sym:
				buf[i] = byte(smt.Eval(c.T, model, memo))
			}
		}
		return fmt.Sprintf("%q", string(buf))
	case string:
		return fmt.Sprintf("%q", v)
	case []value:
		parts := make([]string, len(v))
		for i := range v {
			parts[i] = in.renderConcrete(v[i], model, memo)
		}
		return "[" + strings.Join(parts, " ") + "]"
	case structure:
		parts := make([]string, len(v))
		for i := range v {
			parts[i] = in.renderConcrete(v[i], model, memo)
		}
		return "{" + strings.Join(parts, " ") + "}"
	case array:
		parts := make([]string, len(v))
		for i := range v {
			parts[i] = in.renderConcrete(v[i], model, memo)
		}
		return "[" + strings.Join(parts, " ") + "]"
	case iface:
		if v.t == nil {
			return "<nil>"
		}
		return in.renderConcrete(v.v, model, memo)
	case *value:
		if v == nil {
			return "<nil>"
		}
		return "&" + in.renderConcrete(*v, model, memo)
	case bool, int, int8, int16, int32, int64, uint, uint8, uint16, uint32, uint64, uintptr, float32, float64:
		return fmt.Sprint(v)
	}
	return fmt.Sprintf("<%T>", v)
}

func (x *Explorer) noteElided(instr *ssa.If) {
	pos := x.prog.Fset.Position(instr.Cond.Pos())
	if !pos.IsValid() {
		pos = x.prog.Fset.Position(instr.Pos())
	}
	key := instr.Parent().String()
	if pos.IsValid() {
		key += " @" + pos.String()
	}
	x.mu.Lock()
	x.elided[key] = true
	x.mu.Unlock()
}

// ---------------------------------------------------------------------------
// Order closure over unsigned comparisons (sound syntactic reasoning only):
// edges x -> y for facts x < y (strict) or x <= y taken from path-condition
// conjuncts of the form (bvult x y), (not (bvult x y)), (bvule x y), (not (bvule x y)).

type orderEdge struct {
	to     int
	strict bool
}

func (in *interp) addOrderEdge(x, y *smt.Term, strict bool) {
	if in.order == nil {
		in.order = map[int][]orderEdge{}
	}
	in.order[x.ID] = append(in.order[x.ID], orderEdge{y.ID, strict})
}

func (in *interp) noteOrder(t *smt.Term) {
	switch t.Op {
	case "and":
		for _, a := range t.Args {
			in.noteOrder(a)
		}
	case "bvult":
		in.addOrderEdge(t.Args[0], t.Args[1], true)
	case "bvule":
		in.addOrderEdge(t.Args[0], t.Args[1], false)
	case "not":
		u := t.Args[0]
		switch u.Op {
		case "bvult": // not (x < y)  ==  y <= x
			in.addOrderEdge(u.Args[1], u.Args[0], false)
		case "bvule": // not (x <= y) ==  y < x
			in.addOrderEdge(u.Args[1], u.Args[0], true)
		}
	}
}

// orderPath reports whether y is reachable from x, and whether some path uses a strict edge.
func (in *interp) orderPath(x, y int) (reach, strict bool) {
	if in.order == nil {
		return false, false
	}
	type st struct {
		id     int
		strict bool
	}
	seen := map[st]bool{}
	stack := []st{{x, false}}
	for len(stack) > 0 {
		cur := stack[len(stack)-1]
		stack = stack[:len(stack)-1]
		if seen[cur] {
			continue
		}
		seen[cur] = true
		if cur.id == y && (cur.id != x || cur.strict) {
			reach = true
			if cur.strict {
				return true, true
			}
		}
		for _, e := range in.order[cur.id] {
			stack = append(stack, st{e.to, cur.strict || e.strict})
		}
	}
	return reach, false
}

// ensureSucc adds what is known about u = x + 1: when x < z is known for some z
// (so x + 1 does not wrap), x < u and u <= z for every such z.
func (in *interp) ensureSucc(u *smt.Term) {
	if u.Op != "bvadd" || in.succDone[u.ID] {
		return
	}
	var x *smt.Term
	switch {
	case u.Args[1].IsConst() && u.Args[1].Val == 1:
		x = u.Args[0]
	case u.Args[0].IsConst() && u.Args[0].Val == 1:
		x = u.Args[1]
	default:
		return
	}
	var zs []int
	for _, e := range in.order[x.ID] {
		if e.strict {
			zs = append(zs, e.to)
		}
	}
	if len(zs) == 0 {
		return
	}
	if in.succDone == nil {
		in.succDone = map[int]bool{}
	}
	in.succDone[u.ID] = true
	in.order[x.ID] = append(in.order[x.ID], orderEdge{u.ID, true})
	for _, z := range zs {
		in.order[u.ID] = append(in.order[u.ID], orderEdge{z, false})
	}
}

func (in *interp) orderImplied(c *smt.Term) (bool, bool) {
	neg := false
	t := c
	if t.Op == "not" {
		neg = true
		t = t.Args[0]
	}
	if len(t.Args) == 2 && in.order != nil {
		in.ensureSucc(t.Args[0])
		in.ensureSucc(t.Args[1])
	}
	var res, ok bool
	switch t.Op {
	case "bvult": // x < y
		x, y := t.Args[0].ID, t.Args[1].ID
		if _, s := in.orderPath(x, y); s {
			res, ok = true, true
		} else if r, _ := in.orderPath(y, x); r { // y <= x
			res, ok = false, true
		}
	case "bvule": // x <= y
		x, y := t.Args[0].ID, t.Args[1].ID
		if r, _ := in.orderPath(x, y); r {
			res, ok = true, true
		} else if _, s := in.orderPath(y, x); s { // y < x
			res, ok = false, true
		}
	case "=":
		if t.Args[0].W == 0 {
			return false, false
		}
		x, y := t.Args[0].ID, t.Args[1].ID
		if _, s := in.orderPath(x, y); s {
			res, ok = false, true
		} else if _, s := in.orderPath(y, x); s {
			res, ok = false, true
		}
	}
	if !ok {
		return false, false
	}
	if neg {
		res = !res
	}
	return res, true
}
