package sym

import (
	"fmt"
	"go/constant"
	"go/token"
	"go/types"
	"math"
	"unsafe"

	"gosmt/smt"

	"golang.org/x/tools/go/ssa"
)

// targetPanic is a panic of the program under analysis.
type targetPanic struct{ v value }

func (p targetPanic) String() string { return toString(p.v) }

// abortPath ends the current path without a verdict on the program
// (unsupported construct, infeasible assumption, budget).
type abortPath struct{ kind, msg string }

func unsupported(format string, a ...interface{}) {
	panic(abortPath{"UNSUPPORTED", fmt.Sprintf(format, a...)})
}

func deref(t types.Type) types.Type {
	if p, ok := t.Underlying().(*types.Pointer); ok {
		return p.Elem()
	}
	panic(fmt.Sprintf("deref: not a pointer: %v", t))
}

func constValue(c *ssa.Const) value {
	if c.Value == nil {
		return zero(c.Type())
	}
	if t, ok := c.Type().Underlying().(*types.Basic); ok {
		switch t.Kind() {
		case types.Bool, types.UntypedBool:
			return constant.BoolVal(c.Value)
		case types.Int, types.UntypedInt:
			return int(c.Int64())
		case types.Int8:
			return int8(c.Int64())
		case types.Int16:
			return int16(c.Int64())
		case types.Int32, types.UntypedRune:
			return int32(c.Int64())
		case types.Int64:
			return c.Int64()
		case types.Uint:
			return uint(c.Uint64())
		case types.Uint8:
			return uint8(c.Uint64())
		case types.Uint16:
			return uint16(c.Uint64())
		case types.Uint32:
			return uint32(c.Uint64())
		case types.Uint64:
			return c.Uint64()
		case types.Uintptr:
			return uintptr(c.Uint64())
		case types.Float32:
			return float32(c.Float64())
		case types.Float64, types.UntypedFloat:
			return c.Float64()
		case types.Complex64:
			return complex64(c.Complex128())
		case types.Complex128, types.UntypedComplex:
			return c.Complex128()
		case types.String, types.UntypedString:
			if c.Value.Kind() == constant.String {
				return constant.StringVal(c.Value)
			}
			return string(rune(c.Int64()))
		}
	}
	panic(fmt.Sprintf("constValue: %s", c))
}

func asInt64(x value) int64 {
	switch x := x.(type) {
	case int:
		return int64(x)
	case int8:
		return int64(x)
	case int16:
		return int64(x)
	case int32:
		return int64(x)
	case int64:
		return x
	case uint:
		return int64(x)
	case uint8:
		return int64(x)
	case uint16:
		return int64(x)
	case uint32:
		return int64(x)
	case uint64:
		return int64(x)
	case uintptr:
		return int64(x)
	}
	panic(fmt.Sprintf("cannot convert %T to int64", x))
}

// concInt returns a concrete int64 for x, enumerating feasible values when
// x is symbolic (each value is a separate path).
func (in *interp) concInt(x value) int64 {
	if s, ok := x.(*Sym); ok {
		v := in.enumerate(s)
		return asInt64(v)
	}
	return asInt64(x)
}

func zero(t types.Type) value {
	switch t := t.(type) {
	case *types.Basic:
		if t.Kind() == types.UntypedNil {
			panic("untyped nil has no zero value")
		}
		if t.Info()&types.IsUntyped != 0 {
			t = types.Default(t).(*types.Basic)
		}
		switch t.Kind() {
		case types.Bool:
			return false
		case types.Int:
			return int(0)
		case types.Int8:
			return int8(0)
		case types.Int16:
			return int16(0)
		case types.Int32:
			return int32(0)
		case types.Int64:
			return int64(0)
		case types.Uint:
			return uint(0)
		case types.Uint8:
			return uint8(0)
		case types.Uint16:
			return uint16(0)
		case types.Uint32:
			return uint32(0)
		case types.Uint64:
			return uint64(0)
		case types.Uintptr:
			return uintptr(0)
		case types.Float32:
			return float32(0)
		case types.Float64:
			return float64(0)
		case types.Complex64:
			return complex64(0)
		case types.Complex128:
			return complex128(0)
		case types.String:
			return ""
		case types.UnsafePointer:
			return unsafe.Pointer(nil)
		default:
			panic(fmt.Sprint("zero for unexpected type:", t))
		}
	case *types.Pointer:
		return (*value)(nil)
	case *types.Array:
		a := make(array, t.Len())
		for i := range a {
			a[i] = zero(t.Elem())
		}
		return a
	case *types.Named:
		return zero(t.Underlying())
	case *types.Alias:
		return zero(types.Unalias(t))
	case *types.Interface:
		return iface{}
	case *types.Slice:
		return []value(nil)
	case *types.Struct:
		s := make(structure, t.NumFields())
		for i := range s {
			s[i] = zero(t.Field(i).Type())
		}
		return s
	case *types.Tuple:
		if t.Len() == 1 {
			return zero(t.At(0).Type())
		}
		s := make(tuple, t.Len())
		for i := range s {
			s[i] = zero(t.At(i).Type())
		}
		return s
	case *types.Chan:
		return (*channel)(nil)
	case *types.Map:
		return (*omap)(nil)
	case *types.Signature:
		return (*ssa.Function)(nil)
	case *types.TypeParam:
		panic("zero of type parameter")
	}
	panic(fmt.Sprint("zero: unexpected ", t))
}

// slice returns x[lo:hi:max]. Any of lo, hi and max may be nil.
func (in *interp) slice(x, lo, hi, max value) value {
	var Len, Cap int
	switch x := x.(type) {
	case string:
		Len = len(x)
	case symstr:
		Len = len(x.b)
	case []value:
		Len = len(x)
		Cap = cap(x)
	case *value: // *array
		a := (*x).(array)
		Len = len(a)
		Cap = cap(a)
	}
	l := int64(0)
	if lo != nil {
		l = in.concInt(lo)
	}
	h := int64(Len)
	if hi != nil {
		h = in.concInt(hi)
	}
	m := int64(Cap)
	if max != nil {
		m = in.concInt(max)
	}
	switch x := x.(type) {
	case string:
		if l < 0 || h < l || h > int64(len(x)) {
			panic(fmt.Sprintf("runtime error: slice bounds out of range [%d:%d] with length %d", l, h, len(x)))
		}
		return x[l:h]
	case symstr:
		if l < 0 || h < l || h > int64(len(x.b)) {
			panic(fmt.Sprintf("runtime error: slice bounds out of range [%d:%d] with length %d", l, h, len(x.b)))
		}
		return normStr(symstr{x.b[l:h]})
	case []value:
		if l < 0 || h < l || m < h || m > int64(cap(x)) {
			panic(fmt.Sprintf("runtime error: slice bounds out of range [%d:%d:%d] with capacity %d", l, h, m, cap(x)))
		}
		return x[l:h:m]
	case *value: // *array
		a := (*x).(array)
		if l < 0 || h < l || m < h || m > int64(cap(a)) {
			panic(fmt.Sprintf("runtime error: slice bounds out of range [%d:%d:%d] with capacity %d", l, h, m, cap(a)))
		}
		return []value(a)[l:h:m]
	}
	panic(fmt.Sprintf("slice: unexpected X type: %T", x))
}

func (in *interp) lookup(instr *ssa.Lookup, x, idx value) value {
	switch x := x.(type) {
	case *omap:
		var v value
		e := in.mapFind(x, idx)
		ok := e != nil
		if ok {
			v = copyVal(e.val)
		} else {
			v = zero(instr.X.Type().Underlying().(*types.Map).Elem())
		}
		if instr.CommaOk {
			v = tuple{v, ok}
		}
		return v
	case string:
		return in.index(x, idx)
	case symstr:
		return in.index(x, idx)
	}
	panic(fmt.Sprintf("unexpected x type in Lookup: %T", x))
}

// pickIndex resolves a (possibly symbolic) index against length n; it forks
// over the feasible in-range values and panics on the out-of-range path.
func (in *interp) pickIndex(idx value, n int) int {
	if s, ok := idx.(*Sym); ok {
		w := kindBits(s.K)
		for i := 0; i < n; i++ {
			if in.decide(in.ctx.Eq(s.T, in.ctx.Const(w, uint64(i)))) {
				return i
			}
		}
		panic(fmt.Sprintf("runtime error: index out of range [symbolic] with length %d", n))
	}
	i := asInt64(idx)
	if i < 0 || i >= int64(n) {
		panic(fmt.Sprintf("runtime error: index out of range [%d] with length %d", i, n))
	}
	return int(i)
}

func (in *interp) index(x, idx value) value {
	switch x := x.(type) {
	case array:
		return copyVal(x[in.pickIndex(idx, len(x))])
	case string:
		return x[in.pickIndex(idx, len(x))]
	case symstr:
		return x.b[in.pickIndex(idx, len(x.b))]
	}
	panic(fmt.Sprintf("unexpected x type in Index: %T", x))
}

var bvops = map[token.Token][2]string{ // [unsigned, signed]
	token.ADD: {"bvadd", "bvadd"},
	token.SUB: {"bvsub", "bvsub"},
	token.MUL: {"bvmul", "bvmul"},
	token.QUO: {"bvudiv", "bvsdiv"},
	token.REM: {"bvurem", "bvsrem"},
	token.AND: {"bvand", "bvand"},
	token.OR:  {"bvor", "bvor"},
	token.XOR: {"bvxor", "bvxor"},
}

var cmpops = map[token.Token][2]string{
	token.LSS: {"bvult", "bvslt"},
	token.LEQ: {"bvule", "bvsle"},
}

// symBinop handles a binary operation with at least one symbolic operand.
func (in *interp) symBinop(op token.Token, x, y value) value {
	c := in.ctx
	kx, ky := kindOf(x), kindOf(y)
	if _, isF := x.(float64); isF {
		kx = types.Float64
	}
	if _, isF := y.(float64); isF {
		ky = types.Float64
	}
	if kx == types.Float64 && ky == types.Float64 {
		tx, ty := in.term(x), in.term(y)
		switch op {
		case token.LSS:
			return mkval(c.FP("fp.lt", tx, ty), types.Bool)
		case token.LEQ:
			return mkval(c.FP("fp.leq", tx, ty), types.Bool)
		case token.GTR:
			return mkval(c.FP("fp.lt", ty, tx), types.Bool)
		case token.GEQ:
			return mkval(c.FP("fp.leq", ty, tx), types.Bool)
		case token.EQL:
			return mkval(c.FP("fp.eq", tx, ty), types.Bool)
		case token.NEQ:
			return mkval(c.Not(c.FP("fp.eq", tx, ty)), types.Bool)
		}
		return poison{fmt.Sprintf("float arithmetic %s on a symbolic value", op)}
	}
	if kx == types.Invalid || ky == types.Invalid {
		// float/complex/string mixed with symbolic: not representable
		return poison{fmt.Sprintf("binop %s on %T,%T", op, x, y)}
	}
	tx, ty := in.term(x), in.term(y)
	if kx == types.Bool {
		switch op {
		case token.EQL:
			return mkval(c.Eq(tx, ty), types.Bool)
		case token.NEQ:
			return mkval(c.Not(c.Eq(tx, ty)), types.Bool)
		case token.AND: // not produced by SSA for bools, but harmless
			return mkval(c.And(tx, ty), types.Bool)
		case token.OR:
			return mkval(c.Or(tx, ty), types.Bool)
		}
		panic(fmt.Sprintf("invalid bool op %s", op))
	}
	sg := 0
	if kindSigned(kx) {
		sg = 1
	}
	switch op {
	case token.ADD, token.SUB, token.MUL, token.AND, token.OR, token.XOR:
		return mkval(c.BV2(bvops[op][sg], tx, ty), kx)
	case token.AND_NOT:
		return mkval(c.BV2("bvand", tx, c.BV1("bvnot", ty)), kx)
	case token.QUO, token.REM:
		w := kindBits(kx)
		if in.decide(c.Eq(ty, c.Const(w, 0))) {
			panic("runtime error: integer divide by zero")
		}
		return mkval(c.BV2(bvops[op][sg], tx, ty), kx)
	case token.SHL, token.SHR:
		w := kindBits(kx)
		wy := kindBits(ky)
		if kindSigned(ky) {
			if in.decide(c.Cmp("bvslt", ty, c.Const(wy, 0))) {
				panic("runtime error: negative shift amount")
			}
		}
		// saturate the shift amount to the operand width
		var amt *smt.Term
		if wy > w {
			big := c.Not(c.Cmp("bvult", ty, c.Const(wy, uint64(w))))
			amt = c.Ite(big, c.Const(w, uint64(w)), c.Extract(ty, w-1, 0))
		} else {
			amt = c.ZExt(ty, w)
		}
		switch {
		case op == token.SHL:
			return mkval(c.BV2("bvshl", tx, amt), kx)
		case sg == 1:
			return mkval(c.BV2("bvashr", tx, amt), kx)
		default:
			return mkval(c.BV2("bvlshr", tx, amt), kx)
		}
	case token.EQL:
		return mkval(c.Eq(tx, ty), types.Bool)
	case token.NEQ:
		return mkval(c.Not(c.Eq(tx, ty)), types.Bool)
	case token.LSS, token.LEQ:
		return mkval(c.Cmp(cmpops[op][sg], tx, ty), types.Bool)
	case token.GTR:
		return mkval(c.Cmp(cmpops[token.LSS][sg], ty, tx), types.Bool)
	case token.GEQ:
		return mkval(c.Cmp(cmpops[token.LEQ][sg], ty, tx), types.Bool)
	}
	panic(fmt.Sprintf("invalid symbolic binary op: %T %s %T", x, op, y))
}

func isStr(x value) bool {
	switch x.(type) {
	case string, symstr:
		return true
	}
	return false
}

// binop implements all arithmetic and logical binary operators.
func (in *interp) binop(op token.Token, t types.Type, x, y value) value {
	if isPoison(x) || isPoison(y) {
		return poison{"binop"}
	}
	if isSym(x) || isSym(y) {
		return in.symBinop(op, x, y)
	}
	if _, ok := x.(symstr); ok || func() bool { _, ok := y.(symstr); return ok }() {
		if isStr(x) && isStr(y) {
			a, b := symstrOf(x), symstrOf(y)
			switch op {
			case token.ADD:
				return normStr(symstr{append(append([]value{}, a.b...), b.b...)})
			case token.EQL:
				return in.strEq(a, b)
			case token.NEQ:
				return in.not(in.strEq(a, b))
			case token.LSS:
				return in.strLess(a, b, false)
			case token.LEQ:
				return in.strLess(a, b, true)
			case token.GTR:
				return in.strLess(b, a, false)
			case token.GEQ:
				return in.strLess(b, a, true)
			}
		}
	}
	switch op {
	case token.EQL:
		return in.eqnil(t, x, y)
	case token.NEQ:
		return in.not(in.eqnil(t, x, y))
	}
	// Concrete integers: use the term evaluator via raw bits for uniformity.
	kx := kindOf(x)
	if kx != types.Invalid && kx != types.Bool {
		ky := kindOf(y)
		w := kindBits(kx)
		sg := 0
		if kindSigned(kx) {
			sg = 1
		}
		a, b := bitsOf(x), bitsOf(y)
		switch op {
		case token.ADD, token.SUB, token.MUL, token.AND, token.OR, token.XOR:
			return fromBits(kx, smt.EvalConst(bvops[op][sg], w, a, b))
		case token.AND_NOT:
			return fromBits(kx, a&^b)
		case token.QUO, token.REM:
			if b == 0 {
				panic("runtime error: integer divide by zero")
			}
			return fromBits(kx, smt.EvalConst(bvops[op][sg], w, a, b))
		case token.SHL, token.SHR:
			if kindSigned(ky) && asInt64(y) < 0 {
				panic("runtime error: negative shift amount")
			}
			amt := b
			if amt > uint64(w) {
				amt = uint64(w)
			}
			switch {
			case op == token.SHL:
				return fromBits(kx, smt.EvalConst("bvshl", w, a, amt))
			case sg == 1:
				return fromBits(kx, smt.EvalConst("bvashr", w, a, amt))
			default:
				return fromBits(kx, smt.EvalConst("bvlshr", w, a, amt))
			}
		case token.LSS:
			return smt.EvalConst(cmpops[token.LSS][sg], w, a, b) != 0
		case token.LEQ:
			return smt.EvalConst(cmpops[token.LEQ][sg], w, a, b) != 0
		case token.GTR:
			return smt.EvalConst(cmpops[token.LSS][sg], w, b, a) != 0
		case token.GEQ:
			return smt.EvalConst(cmpops[token.LEQ][sg], w, b, a) != 0
		}
	}
	switch x := x.(type) {
	case float64:
		y := y.(float64)
		switch op {
		case token.ADD:
			return x + y
		case token.SUB:
			return x - y
		case token.MUL:
			return x * y
		case token.QUO:
			return x / y
		case token.LSS:
			return x < y
		case token.LEQ:
			return x <= y
		case token.GTR:
			return x > y
		case token.GEQ:
			return x >= y
		}
	case float32:
		y := y.(float32)
		switch op {
		case token.ADD:
			return x + y
		case token.SUB:
			return x - y
		case token.MUL:
			return x * y
		case token.QUO:
			return x / y
		case token.LSS:
			return x < y
		case token.LEQ:
			return x <= y
		case token.GTR:
			return x > y
		case token.GEQ:
			return x >= y
		}
	case string:
		y := y.(string)
		switch op {
		case token.ADD:
			return x + y
		case token.LSS:
			return x < y
		case token.LEQ:
			return x <= y
		case token.GTR:
			return x > y
		case token.GEQ:
			return x >= y
		}
	case complex128:
		y := y.(complex128)
		switch op {
		case token.ADD:
			return x + y
		case token.SUB:
			return x - y
		case token.MUL:
			return x * y
		case token.QUO:
			return x / y
		}
	}
	panic(fmt.Sprintf("invalid binary op: %T %s %T", x, op, y))
}

func (in *interp) not(v value) value {
	switch v := v.(type) {
	case bool:
		return !v
	case *Sym:
		return mkval(in.ctx.Not(v.T), types.Bool)
	case poison:
		return v
	}
	panic(fmt.Sprintf("not: %T", v))
}

// eqnil returns x == y where at most one side may be a nil of reference type.
func (in *interp) eqnil(t types.Type, x, y value) value {
	switch t.Underlying().(type) {
	case *types.Map, *types.Signature, *types.Slice:
		isNil := func(v value) bool {
			switch v := v.(type) {
			case *omap:
				return v == nil
			case *ssa.Function:
				return v == nil
			case *closure:
				return v == nil
			case *ssa.Builtin:
				return v == nil
			case *hostFunc:
				return v == nil
			case []value:
				return v == nil
			}
			panic(fmt.Sprintf("eqnil(%s): illegal dynamic type: %T", t, v))
		}
		return isNil(x) == isNil(y)
	}
	return in.equals(t, x, y)
}

func (in *interp) unop(instr *ssa.UnOp, x value) value {
	if isPoison(x) {
		return x
	}
	switch instr.Op {
	case token.ARROW:
		return in.chanRecv(x.(*channel), instr.X.Type().Underlying().(*types.Chan).Elem(), instr.CommaOk)
	case token.SUB:
		if s, ok := x.(*Sym); ok {
			if s.K == types.Float64 {
				return poison{"negation of a symbolic float"}
			}
			return mkval(in.ctx.BV1("bvneg", s.T), s.K)
		}
		switch x := x.(type) {
		case float32:
			return -x
		case float64:
			return -x
		case complex64:
			return -x
		case complex128:
			return -x
		}
		k := kindOf(x)
		return fromBits(k, -bitsOf(x))
	case token.MUL:
		p := x.(*value)
		if p == nil {
			panic("runtime error: invalid memory address or nil pointer dereference")
		}
		return load(deref(instr.X.Type()), p)
	case token.NOT:
		return in.not(x)
	case token.XOR:
		if s, ok := x.(*Sym); ok {
			return mkval(in.ctx.BV1("bvnot", s.T), s.K)
		}
		k := kindOf(x)
		return fromBits(k, ^bitsOf(x))
	}
	panic(fmt.Sprintf("invalid unary op %s %T", instr.Op, x))
}

func (in *interp) typeAssert(instr *ssa.TypeAssert, itf iface) value {
	var v value
	err := ""
	if itf.t == nil {
		err = fmt.Sprintf("interface conversion: interface is nil, not %s", instr.AssertedType)
	} else if idst, ok := instr.AssertedType.Underlying().(*types.Interface); ok {
		v = itf
		if meth, _ := types.MissingMethod(itf.t, idst, true); meth != nil {
			err = fmt.Sprintf("interface conversion: %v is not %v: missing method %s", itf.t, idst, meth.Name())
		}
	} else if types.Identical(itf.t, instr.AssertedType) {
		v = itf.v
	} else {
		err = fmt.Sprintf("interface conversion: interface is %s, not %s", itf.t, instr.AssertedType)
	}
	if err != "" {
		if !instr.CommaOk {
			panic(err)
		}
		return tuple{zero(instr.AssertedType), false}
	}
	if instr.CommaOk {
		return tuple{v, true}
	}
	return v
}

func (in *interp) callBuiltin(caller *frame, callpos token.Pos, fn *ssa.Builtin, args []value) value {
	switch fn.Name() {
	case "append":
		if len(args) == 1 {
			return args[0]
		}
		switch s := args[1].(type) {
		case string:
			arg0 := args[0].([]value)
			for i := 0; i < len(s); i++ {
				arg0 = append(arg0, s[i])
			}
			return arg0
		case symstr:
			return append(args[0].([]value), s.b...)
		}
		src := args[1].([]value)
		cp := make([]value, len(src))
		for i := range src {
			cp[i] = copyVal(src[i])
		}
		return append(args[0].([]value), cp...)

	case "copy":
		dst := args[0].([]value)
		var src []value
		switch s := args[1].(type) {
		case string:
			src = symstrOf(s).b
		case symstr:
			src = s.b
		case []value:
			src = s
		}
		n := len(src)
		if len(dst) < n {
			n = len(dst)
		}
		tmp := make([]value, n)
		for i := 0; i < n; i++ {
			tmp[i] = copyVal(src[i])
		}
		copy(dst, tmp)
		return n

	case "close":
		args[0].(*channel).closed = true
		return nil

	case "delete":
		in.mapDelete(args[0].(*omap), args[1])
		return nil

	case "print", "println":
		return nil

	case "len":
		switch x := args[0].(type) {
		case string:
			return len(x)
		case symstr:
			return len(x.b)
		case array:
			return len(x)
		case *value:
			return len((*x).(array))
		case []value:
			return len(x)
		case *omap:
			if x == nil {
				return 0
			}
			return x.len()
		case *channel:
			if x == nil {
				return 0
			}
			return len(x.buf)
		default:
			panic(fmt.Sprintf("len: illegal operand: %T", x))
		}

	case "cap":
		switch x := args[0].(type) {
		case array:
			return cap(x)
		case *value:
			return cap((*x).(array))
		case []value:
			return cap(x)
		case *channel:
			if x == nil {
				return 0
			}
			return x.cap
		default:
			panic(fmt.Sprintf("cap: illegal operand: %T", x))
		}

	case "min", "max":
		x := args[0]
		for _, a := range args[1:] {
			var c value
			if fn.Name() == "min" {
				c = in.binop(token.LSS, nil, a, x)
			} else {
				c = in.binop(token.GTR, nil, a, x)
			}
			x = in.ite(c, a, x)
		}
		return x

	case "panic":
		panic(targetPanic{args[0]})

	case "recover":
		return doRecover(caller)

	case "ssa:wrapnilchk":
		recv := args[0]
		if recv.(*value) == nil {
			panic(fmt.Sprintf("value method (%s).%s called using nil *%s pointer", args[1], args[2], args[1]))
		}
		return recv

	case "ssa:deferstack":
		return &caller.defers
	}
	panic("unknown built-in: " + fn.Name())
}

// ite builds a conditional scalar; aggregates fork.
func (in *interp) ite(c, a, b value) value {
	switch c := c.(type) {
	case bool:
		if c {
			return a
		}
		return b
	case *Sym:
		ka, kb := kindOf(a), kindOf(b)
		if ka != types.Invalid && ka == kb {
			return mkval(in.ctx.Ite(c.T, in.term(a), in.term(b)), ka)
		}
		if in.decide(c.T) {
			return a
		}
		return b
	}
	panic(fmt.Sprintf("ite: %T", c))
}

func (in *interp) rangeIter(x value, t types.Type) iter {
	switch x := x.(type) {
	case *omap:
		it := &mapIter{m: x}
		if x != nil {
			it.snap = append(it.snap, x.entries...)
		}
		return it
	case string:
		return &stringIter{s: x}
	case symstr:
		unsupported("range over a string with symbolic bytes")
	}
	panic(fmt.Sprintf("cannot range over %T", x))
}

// conv converts x of type t_src to t_dst.
func (in *interp) conv(t_dst, t_src types.Type, x value) value {
	ut_src := t_src.Underlying()
	ut_dst := t_dst.Underlying()
	if isPoison(x) {
		return x
	}

	switch ut_src := ut_src.(type) {
	case *types.Pointer:
		if b, ok := ut_dst.(*types.Basic); ok && b.Kind() == types.UnsafePointer {
			return unsafe.Pointer(x.(*value))
		}

	case *types.Slice:
		// []byte or []rune -> string
		switch ut_src.Elem().Underlying().(*types.Basic).Kind() {
		case types.Byte:
			x := x.([]value)
			return normStr(symstr{append([]value{}, x...)})
		case types.Rune:
			x := x.([]value)
			r := make([]rune, 0, len(x))
			for i := range x {
				rr, ok := x[i].(rune)
				if !ok {
					unsupported("[]rune with symbolic element to string")
				}
				r = append(r, rr)
			}
			return string(r)
		}

	case *types.Basic:
		if s, ok := x.(*Sym); ok {
			db, ok := ut_dst.(*types.Basic)
			if !ok {
				unsupported("conversion of symbolic %v to %v", t_src, t_dst)
			}
			if s.K == types.Float64 {
				if db.Kind() == types.Float64 {
					return s
				}
				return poison{"conversion of a symbolic float"}
			}
			if db.Info()&types.IsInteger == 0 {
				return poison{fmt.Sprintf("conversion of symbolic %v to %v", t_src, t_dst)}
			}
			dk := db.Kind()
			ws, wd := kindBits(s.K), kindBits(dk)
			var t *smt.Term
			switch {
			case wd == ws:
				t = s.T
			case wd < ws:
				t = in.ctx.Extract(s.T, wd-1, 0)
			case kindSigned(s.K):
				t = in.ctx.SExt(s.T, wd)
			default:
				t = in.ctx.ZExt(s.T, wd)
			}
			return mkval(t, dk)
		}
		if ss, ok := x.(symstr); ok {
			switch ut_dst := ut_dst.(type) {
			case *types.Slice:
				if ut_dst.Elem().Underlying().(*types.Basic).Kind() == types.Byte {
					return append([]value{}, ss.b...)
				}
				unsupported("symbolic string to []rune")
			case *types.Basic:
				if ut_dst.Kind() == types.String {
					return ss
				}
			}
			break
		}
		// integer -> string?
		if ut_src.Info()&types.IsInteger != 0 {
			if ut_dst, ok := ut_dst.(*types.Basic); ok && ut_dst.Kind() == types.String {
				return string(rune(asInt64(x)))
			}
		}
		if s, ok := x.(string); ok {
			switch ut_dst := ut_dst.(type) {
			case *types.Slice:
				var res []value
				switch ut_dst.Elem().Underlying().(*types.Basic).Kind() {
				case types.Rune:
					for _, r := range []rune(s) {
						res = append(res, r)
					}
					if res == nil {
						res = []value{}
					}
					return res
				case types.Byte:
					res = make([]value, len(s))
					for i := 0; i < len(s); i++ {
						res[i] = s[i]
					}
					return res
				}
			case *types.Basic:
				if ut_dst.Kind() == types.String {
					return s
				}
			}
			break
		}
		if ut_src.Kind() == types.UnsafePointer {
			// only pointers that were produced from a *value by the inverse conversion occur here
			if _, ok := ut_dst.(*types.Pointer); ok {
				return (*value)(x.(unsafe.Pointer))
			}
			return zero(t_dst)
		}
		if ut_src.Info()&types.IsComplex != 0 {
			switch ut_dst.(*types.Basic).Kind() {
			case types.Complex64:
				return complex64(widenC(x))
			case types.Complex128:
				return widenC(x)
			}
			break
		}
		if ut_src.Info()&types.IsNumeric != 0 {
			kind := ut_dst.(*types.Basic).Kind()
			switch xv := x.(type) {
			case float32:
				return convFloat(kind, float64(xv))
			case float64:
				return convFloat(kind, xv)
			}
			k := kindOf(x)
			if k == types.Invalid {
				break
			}
			switch kind {
			case types.Float32:
				if kindSigned(k) {
					return float32(asInt64(x))
				}
				return float32(bitsOf(x))
			case types.Float64:
				if kindSigned(k) {
					return float64(asInt64(x))
				}
				return float64(bitsOf(x))
			}
			// integer -> integer
			var b uint64
			if kindSigned(k) {
				b = uint64(asInt64(x))
			} else {
				b = bitsOf(x)
			}
			return fromBits(kind, b)
		}
	}
	panic(fmt.Sprintf("unsupported conversion: %s  -> %s, dynamic type %T", t_src, t_dst, x))
}

func widenC(x value) complex128 {
	switch x := x.(type) {
	case complex64:
		return complex128(x)
	case complex128:
		return x
	}
	panic("widenC")
}

func convFloat(kind types.BasicKind, x float64) value {
	switch kind {
	case types.Int:
		return int(x)
	case types.Int8:
		return int8(x)
	case types.Int16:
		return int16(x)
	case types.Int32:
		return int32(x)
	case types.Int64:
		return int64(x)
	case types.Uint:
		return uint(x)
	case types.Uint8:
		return uint8(x)
	case types.Uint16:
		return uint16(x)
	case types.Uint32:
		return uint32(x)
	case types.Uint64:
		return uint64(x)
	case types.Uintptr:
		return uintptr(x)
	case types.Float32:
		return float32(x)
	case types.Float64:
		return x
	}
	panic("convFloat")
}

var _ = math.Abs
