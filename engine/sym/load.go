package sym

import (
	"encoding/json"
	"fmt"
	"os"
	"os/exec"
	"path/filepath"
	"strings"
	"time"

	"golang.org/x/tools/go/packages"
	"golang.org/x/tools/go/ssa"
	"golang.org/x/tools/go/ssa/ssautil"
)

// Loaded is an SSA program built from /repo's current tree plus overlays.
type Loaded struct {
	Prog     *ssa.Program
	Pkg      *ssa.Package
	LoadTime time.Duration
	Files    []string
}

const modulePath = "github.com/tikv/pd"

// BuildOverlay computes the overlay shared by the symbolic run and the native
// replay: harness files in the target package directory, the zzvrf tree as
// <repo>/pkg/zzvrf, and patched copies of three clientv3 files (accessors for
// Op.limit/leaseID; NewKV/NewLease return the in-memory model when the client
// carries one). Nothing is written to /repo.
func BuildOverlay(repo, pkgPath string, harness []string, zzvrfDir string, native bool) (map[string][]byte, error) {
	overlay := map[string][]byte{}
	rel := strings.TrimPrefix(pkgPath, modulePath)
	pkgDir := filepath.Join(repo, rel)
	for _, h := range harness {
		if h == "" {
			continue
		}
		// "P:patches.json": source patches applied to /repo's current files in the overlay only
		// ([{"file": "server/tso/x.go", "old": "...", "new": "..."}], each `old` must occur exactly once):
		// used to cut the code at a call that cannot be modelled (an RPC fan-out) and route it to a
		// contract stub defined in the harness; the symbolic and the native run see the same overlay
		if strings.HasPrefix(h, "P:") {
			raw, err := os.ReadFile(h[2:])
			if err != nil {
				return nil, err
			}
			var ps []struct{ File, Old, New string }
			if err := json.Unmarshal(raw, &ps); err != nil {
				return nil, fmt.Errorf("%s: %v", h, err)
			}
			for _, pt := range ps {
				full := filepath.Join(repo, pt.File)
				cur, ok := overlay[full]
				if !ok {
					if cur, err = os.ReadFile(full); err != nil {
						return nil, err
					}
				}
				if n := strings.Count(string(cur), pt.Old); n != 1 {
					return nil, fmt.Errorf("source patch for %s: the anchored text occurs %d times in the current tree (expected once)", pt.File, n)
				}
				overlay[full] = []byte(strings.Replace(string(cur), pt.Old, pt.New, 1))
			}
			continue
		}
		// "file.go" goes into the target package; "file.go@server/election" into that package directory
		dir := pkgDir
		if i := strings.Index(h, "@"); i >= 0 {
			dir = filepath.Join(repo, h[i+1:])
			h = h[:i]
		}
		// "file.go#name" rewrites the package clause, so that one world builder serves several packages
		rename := ""
		if i := strings.Index(h, "#"); i >= 0 {
			rename = h[i+1:]
			h = h[:i]
		}
		data, err := os.ReadFile(h)
		if err != nil {
			return nil, err
		}
		if rename != "" {
			lines := strings.SplitN(string(data), "\n", -1)
			for i, l := range lines {
				if strings.HasPrefix(l, "package ") {
					lines[i] = "package " + rename
					break
				}
			}
			data = []byte(strings.Join(lines, "\n"))
		}
		overlay[filepath.Join(dir, "zz_verif_"+filepath.Base(h))] = data
	}
	err := filepath.Walk(zzvrfDir, func(p string, info os.FileInfo, err error) error {
		if err != nil {
			return err
		}
		if info.IsDir() || !strings.HasSuffix(p, ".go") {
			return nil
		}
		data, err := os.ReadFile(p)
		if err != nil {
			return err
		}
		r, _ := filepath.Rel(zzvrfDir, p)
		overlay[filepath.Join(repo, "pkg", "zzvrf", r)] = data
		return nil
	})
	if err != nil {
		return nil, err
	}
	// clientv3 patches
	cmd := exec.Command("go", "list", "-m", "-f", "{{.Dir}}", "go.etcd.io/etcd")
	cmd.Dir = repo
	cmd.Env = append(os.Environ(), "GOFLAGS=-mod=mod", "GOPROXY=off", "GOSUMDB=off", "GOTOOLCHAIN=local")
	out, err := cmd.Output()
	if err != nil {
		return nil, fmt.Errorf("locating go.etcd.io/etcd: %v", err)
	}
	cdir := filepath.Join(strings.TrimSpace(string(out)), "clientv3")
	patch := func(file string, f func(string) (string, error)) error {
		data, err := os.ReadFile(filepath.Join(cdir, file))
		if err != nil {
			return err
		}
		res, err := f(string(data))
		if err != nil {
			return fmt.Errorf("patching clientv3/%s: %v", file, err)
		}
		overlay[filepath.Join(cdir, file)] = []byte(res)
		return nil
	}
	if err := patch("op.go", func(s string) (string, error) {
		return s + "\n// accessors appended by /verif (overlay only)\nfunc (op Op) VerifLimit() int64 { return op.limit }\nfunc (op Op) VerifLeaseID() LeaseID { return op.leaseID }\n", nil
	}); err != nil {
		return nil, err
	}
	if err := patch("kv.go", func(s string) (string, error) {
		const sig = "func NewKV(c *Client) KV {"
		if !strings.Contains(s, sig) {
			return "", fmt.Errorf("NewKV not found")
		}
		s = strings.Replace(s, sig, "func verifOrigNewKV(c *Client) KV {", 1)
		return s + "\n// appended by /verif (overlay only)\nfunc NewKV(c *Client) KV {\n\tif m, ok := c.KV.(interface{ VerifModel() bool }); ok && m.VerifModel() {\n\t\treturn c.KV\n\t}\n\treturn verifOrigNewKV(c)\n}\n", nil
	}); err != nil {
		return nil, err
	}
	if err := patch("lease.go", func(s string) (string, error) {
		const sig = "func NewLease(c *Client) Lease {"
		if !strings.Contains(s, sig) {
			return "", fmt.Errorf("NewLease not found")
		}
		s = strings.Replace(s, sig, "func verifOrigNewLease(c *Client) Lease {", 1)
		return s + "\n// appended by /verif (overlay only)\nfunc NewLease(c *Client) Lease {\n\tif m, ok := c.Lease.(interface{ VerifModel() bool }); ok && m.VerifModel() {\n\t\treturn c.Lease\n\t}\n\treturn verifOrigNewLease(c)\n}\n", nil
	}); err != nil {
		return nil, err
	}
	if native {
		// controllable clock for native replay: time.Now / Since / Until consult VerifNowHook
		out, err := exec.Command("go", "env", "GOROOT").Output()
		if err != nil {
			return nil, err
		}
		tfile := filepath.Join(strings.TrimSpace(string(out)), "src", "time", "time.go")
		data, err := os.ReadFile(tfile)
		if err != nil {
			return nil, err
		}
		src := string(data)
		for _, r := range [][2]string{
			{"func Now() Time {\n\tsec, nsec, mono := now()", "func Now() Time {\n\tsec, nsec, mono := verifNow()"},
			{"func Since(t Time) Duration {\n", "func Since(t Time) Duration {\n\tif VerifNowHook != nil {\n\t\treturn Now().Sub(t)\n\t}\n"},
			{"func Until(t Time) Duration {\n", "func Until(t Time) Duration {\n\tif VerifNowHook != nil {\n\t\treturn t.Sub(Now())\n\t}\n"},
		} {
			if !strings.Contains(src, r[0]) {
				return nil, fmt.Errorf("patching time.go: pattern %q not found", r[0])
			}
			src = strings.Replace(src, r[0], r[1], 1)
		}
		src += "\n// appended by /verif (overlay only)\nvar VerifNowHook func() (wall int64, mono int64, ok bool)\n\nfunc verifNow() (sec int64, nsec int32, mono int64) {\n\tif VerifNowHook != nil {\n\t\tif w, m, ok := VerifNowHook(); ok {\n\t\t\treturn w / 1e9, int32(w % 1e9), m + startNano\n\t\t}\n\t}\n\treturn now()\n}\n"
		overlay[tfile] = []byte(src)
		// scheduling hooks for deterministic replay of thread schedules
		root := filepath.Dir(filepath.Dir(tfile))
		hook := func(file string, reps [][2]string, tail string) error {
			data, err := os.ReadFile(filepath.Join(root, file))
			if err != nil {
				return err
			}
			src := string(data)
			for _, r := range reps {
				if !strings.Contains(src, r[0]) {
					return fmt.Errorf("patching %s: pattern %q not found", file, r[0])
				}
				src = strings.Replace(src, r[0], r[1], 1)
			}
			overlay[filepath.Join(root, file)] = []byte(src + tail)
			return nil
		}
		call := "\n\tif VerifSyncHook != nil {\n\t\tVerifSyncHook()\n\t}"
		if err := hook("sync/mutex.go", [][2]string{{"func (m *Mutex) Lock() {", "func (m *Mutex) Lock() {" + call}},
			"\n// appended by /verif (overlay only)\nvar VerifSyncHook func()\n"); err != nil {
			return nil, err
		}
		if err := hook("sync/rwmutex.go", [][2]string{
			{"func (rw *RWMutex) RLock() {", "func (rw *RWMutex) RLock() {" + call},
			{"func (rw *RWMutex) Lock() {", "func (rw *RWMutex) Lock() {" + call}}, ""); err != nil {
			return nil, err
		}
		vcall := "\n\tif VerifValueHook != nil {\n\t\tVerifValueHook()\n\t}"
		if err := hook("sync/atomic/value.go", [][2]string{
			{"func (v *Value) Load() (val any) {", "func (v *Value) Load() (val any) {" + vcall},
			{"func (v *Value) Store(val any) {", "func (v *Value) Store(val any) {" + vcall}},
			"\n// appended by /verif (overlay only)\nvar VerifValueHook func()\n"); err != nil {
			return nil, err
		}
	}
	return overlay, nil
}

// Load type-checks pkgPath (inside the module rooted at repo) together with the
// overlay of BuildOverlay and builds SSA for the whole program.
func Load(repo, pkgPath string, harness []string, zzvrfDir string) (*Loaded, error) {
	t0 := time.Now()
	overlay, err := BuildOverlay(repo, pkgPath, harness, zzvrfDir, false)
	if err != nil {
		return nil, err
	}
	cfg := &packages.Config{
		Mode:    packages.LoadAllSyntax,
		Dir:     repo,
		Overlay: overlay,
		Env:     append(os.Environ(), "GOFLAGS=-mod=mod", "GOPROXY=off", "GOSUMDB=off", "GOTOOLCHAIN=local"),
	}
	pkgs, err := packages.Load(cfg, pkgPath)
	if err != nil {
		return nil, err
	}
	var errs []string
	packages.Visit(pkgs, nil, func(p *packages.Package) {
		for _, e := range p.Errors {
			if len(errs) < 10 {
				errs = append(errs, e.Error())
			}
		}
	})
	if len(errs) > 0 {
		return nil, fmt.Errorf("load errors:\n%s", strings.Join(errs, "\n"))
	}
	prog, spkgs := ssautil.AllPackages(pkgs, ssa.InstantiateGenerics)
	if len(spkgs) == 0 || spkgs[0] == nil {
		return nil, fmt.Errorf("no SSA package for %s", pkgPath)
	}
	spkgs[0].Build()
	return &Loaded{Prog: prog, Pkg: spkgs[0], LoadTime: time.Since(t0)}, nil
}

// Explore runs one entry function.
func (l *Loaded) Explore(entry string, cfg *Config) (*Result, error) {
	fn := l.Pkg.Func(entry)
	if fn == nil {
		return nil, fmt.Errorf("entry function %s not found in %s", entry, l.Pkg.Pkg.Path())
	}
	x := NewExplorer(l.Prog, fn, cfg)
	return x.Run(), nil
}

// DefaultConfig returns the package policy shared by all harnesses.
func DefaultConfig() *Config {
	return &Config{
		Backend:      "z3",
		TimeoutMs:    30000,
		Workers:      8,
		MaxSteps:     20_000_000,
		MaxDecisions: 400,
		MaxPreempt:   2,
		HolePkgs: []string{
			"go.uber.org/zap", "github.com/pingcap/log", "github.com/prometheus/",
			"github.com/opentracing/", "go.uber.org/multierr", "github.com/sirupsen/logrus",
			"github.com/grpc-ecosystem/", "log$", "google.golang.org/grpc", "flag$", "github.com/spf13/pflag",
		},
		InterpPkgs: []string{
			"github.com/tikv/pd", "github.com/pingcap/errors", "github.com/pingcap/failpoint",
			"github.com/pingcap/kvproto", "go.uber.org/atomic", "github.com/pkg/errors",
			"errors$", "sort$", "strings$", "bytes$", "strconv$", "unicode$", "unicode/utf8$", "math$", "container/",
			"encoding/binary$", "encoding/hex$", "path$", "time$", "sync$", "context$",
			"github.com/gogo/protobuf/proto", "github.com/golang/protobuf/proto",
			"go.etcd.io/etcd/clientv3$", "go.etcd.io/etcd/etcdserver/etcdserverpb", "go.etcd.io/etcd/mvcc/mvccpb",
			"github.com/coreos/go-semver", "github.com/docker/go-units", "github.com/phf/go-queue",
			"internal/bytealg$", "internal/itoa$", "path/filepath$", "net/url$", "internal/filepathlite$", "internal/stringslite$", "github.com/google/btree", "math/bits$", "github.com/montanaflynn/stats",
		},
		InitPkgs: []string{
			"github.com/tikv/pd", "github.com/pingcap/errors", "strconv$", "unicode$", "math$", "sort$", "strings$", "bytes$",
			"encoding/binary$", "encoding/hex$", "github.com/pingcap/kvproto", "context$", "go.uber.org/atomic",
			"go.etcd.io/etcd/etcdserver/etcdserverpb", "go.etcd.io/etcd/mvcc/mvccpb", "github.com/google/btree",
		},
	}
}

// Summary is the JSON-friendly digest of a Result.
func (r *Result) Summary() map[string]interface{} {
	return map[string]interface{}{
		"entry": r.Entry, "paths": r.Paths, "infeasible": r.Infeasible, "aborted": r.Aborted, "abort_msgs": r.AbortMsgs,
		"decisions": r.Decisions, "obligations": r.Obligations, "discharged": r.Discharged, "trivial": r.Trivial,
		"unknown": r.Unknown, "unknown_branch": r.UnknownBranch, "queries": r.Queries, "solver_s": r.SolverTime.Seconds(), "model_s": r.ModelTime.Seconds(), "models": r.Models,
		"solver_errors": r.SolverErrors, "last_solver_err": r.LastSolverErr, "violations": r.Violations, "reached": r.Reached,
		"assert_sites": r.AssertSites, "funcs": r.Funcs, "skipped_go": r.SkippedGo, "wall_s": r.Wall.Seconds(), "path_limit_hit": r.PathLimitHit,
		"samples": len(r.Samples),
	}
}
