package sym

import (
	"fmt"
	"os"
	"path/filepath"
	"strings"
	"time"

	"golang.org/x/tools/go/packages"
	"golang.org/x/tools/go/ssa"
	"golang.org/x/tools/go/ssa/ssautil"
)

// Loaded is an SSA program built from /repo's current tree plus overlays.
type Loaded struct {
	Prog     *ssa.Program
	Pkg      *ssa.Package
	LoadTime time.Duration
	Files    []string
}

const modulePath = "github.com/tikv/pd"

// Load type-checks pkgPath (inside the module rooted at repo) together with the
// harness files (overlaid into the package directory) and the zzvrf package
// (overlaid as <repo>/pkg/zzvrf), and builds SSA for the whole program.
func Load(repo, pkgPath string, harness []string, zzvrfDir string) (*Loaded, error) {
	t0 := time.Now()
	overlay := map[string][]byte{}
	rel := strings.TrimPrefix(pkgPath, modulePath)
	pkgDir := filepath.Join(repo, rel)
	for _, h := range harness {
		if h == "" {
			continue
		}
		data, err := os.ReadFile(h)
		if err != nil {
			return nil, err
		}
		overlay[filepath.Join(pkgDir, "zz_verif_"+filepath.Base(h))] = data
	}
	ents, err := os.ReadDir(zzvrfDir)
	if err != nil {
		return nil, err
	}
	for _, e := range ents {
		if strings.HasSuffix(e.Name(), ".go") {
			data, err := os.ReadFile(filepath.Join(zzvrfDir, e.Name()))
			if err != nil {
				return nil, err
			}
			overlay[filepath.Join(repo, "pkg", "zzvrf", e.Name())] = data
		}
	}
	cfg := &packages.Config{
		Mode:    packages.LoadAllSyntax,
		Dir:     repo,
		Overlay: overlay,
		Env:     append(os.Environ(), "GOFLAGS=-mod=mod", "GOPROXY=off", "GOSUMDB=off", "GOTOOLCHAIN=local"),
	}
	pkgs, err := packages.Load(cfg, pkgPath)
	if err != nil {
		return nil, err
	}
	var errs []string
	packages.Visit(pkgs, nil, func(p *packages.Package) {
		for _, e := range p.Errors {
			if len(errs) < 10 {
				errs = append(errs, e.Error())
			}
		}
	})
	if len(errs) > 0 {
		return nil, fmt.Errorf("load errors:\n%s", strings.Join(errs, "\n"))
	}
	prog, spkgs := ssautil.AllPackages(pkgs, ssa.InstantiateGenerics)
	if len(spkgs) == 0 || spkgs[0] == nil {
		return nil, fmt.Errorf("no SSA package for %s", pkgPath)
	}
	spkgs[0].Build()
	return &Loaded{Prog: prog, Pkg: spkgs[0], LoadTime: time.Since(t0)}, nil
}

// Explore runs one entry function.
func (l *Loaded) Explore(entry string, cfg *Config) (*Result, error) {
	fn := l.Pkg.Func(entry)
	if fn == nil {
		return nil, fmt.Errorf("entry function %s not found in %s", entry, l.Pkg.Pkg.Path())
	}
	x := NewExplorer(l.Prog, fn, cfg)
	return x.Run(), nil
}

// DefaultConfig returns the package policy shared by all harnesses.
func DefaultConfig() *Config {
	return &Config{
		Backend:      "z3",
		TimeoutMs:    30000,
		Workers:      8,
		MaxSteps:     20_000_000,
		MaxDecisions: 400,
		MaxPreempt:   2,
		HolePkgs: []string{
			"go.uber.org/zap", "github.com/pingcap/log", "github.com/prometheus/",
			"github.com/opentracing/", "go.uber.org/multierr", "github.com/sirupsen/logrus",
			"github.com/grpc-ecosystem/", "log",
		},
		InterpPkgs: []string{
			"github.com/tikv/pd", "github.com/pingcap/errors", "github.com/pingcap/failpoint",
			"github.com/pingcap/kvproto", "go.uber.org/atomic", "github.com/pkg/errors",
			"errors", "sort", "strings", "bytes", "strconv", "unicode", "math", "container/",
			"encoding/binary", "encoding/hex", "path", "time", "sync", "context",
			"github.com/gogo/protobuf/proto", "github.com/golang/protobuf/proto",
			"go.etcd.io/etcd/clientv3", "go.etcd.io/etcd/etcdserver/etcdserverpb", "go.etcd.io/etcd/mvcc/mvccpb",
			"github.com/coreos/go-semver", "github.com/docker/go-units", "github.com/phf/go-queue",
			"internal/bytealg", "internal/itoa", "github.com/google/btree", "math/bits", "github.com/montanaflynn/stats",
		},
		InitPkgs: []string{
			"github.com/tikv/pd", "github.com/pingcap/errors", "errors", "strconv", "unicode", "math", "sort", "strings", "bytes",
			"encoding/binary", "encoding/hex", "github.com/pingcap/kvproto", "go.etcd.io/etcd/clientv3", "context", "time", "go.uber.org/atomic",
			"go.etcd.io/etcd/etcdserver/etcdserverpb", "go.etcd.io/etcd/mvcc/mvccpb", "github.com/coreos/go-semver", "github.com/docker/go-units",
		},
	}
}

// Summary is the JSON-friendly digest of a Result.
func (r *Result) Summary() map[string]interface{} {
	return map[string]interface{}{
		"entry": r.Entry, "paths": r.Paths, "infeasible": r.Infeasible, "aborted": r.Aborted, "abort_msgs": r.AbortMsgs,
		"decisions": r.Decisions, "obligations": r.Obligations, "discharged": r.Discharged, "trivial": r.Trivial,
		"unknown": r.Unknown, "unknown_branch": r.UnknownBranch, "queries": r.Queries, "solver_s": r.SolverTime.Seconds(),
		"solver_errors": r.SolverErrors, "last_solver_err": r.LastSolverErr, "violations": r.Violations, "reached": r.Reached,
		"assert_sites": r.AssertSites, "funcs": r.Funcs, "skipped_go": r.SkippedGo, "wall_s": r.Wall.Seconds(), "path_limit_hit": r.PathLimitHit,
		"samples": len(r.Samples),
	}
}
