// Package sym is a symbolic executor for go/ssa programs. It is derived from
// golang.org/x/tools/go/ssa/interp (BSD licence, The Go Authors) and extends it
// with symbolic scalars, symbolic byte strings, ordered maps, a cooperative
// thread scheduler and an SMT back end.
package sym

import (
	"bytes"
	"fmt"
	"go/types"
	"math"

	"gosmt/smt"

	"golang.org/x/tools/go/ssa"
)

type value interface{}

type tuple []value

type array []value

type iface struct {
	t types.Type // never an "untyped" type
	v value
}

type structure []value

type closure struct {
	Fn  *ssa.Function
	Env []value
}

type bad struct{}

// Sym is a symbolic scalar: a solver term plus the Go basic kind it stands for.
type Sym struct {
	T *smt.Term
	K types.BasicKind
}

// symstr is a string whose bytes may be symbolic (uint8 or *Sym of kind Uint8).
// Its length is always concrete.
type symstr struct{ b []value }

// poison marks a value that could not be computed symbolically (e.g. a float
// derived from a symbolic integer). It may flow into black-holed calls only.
type poison struct{ why string }

// channel is a buffered queue (no rendez-vous).
type channel struct {
	buf    []value
	cap    int
	closed bool
}

// hole is the result of a call into a black-holed package (logging, metrics).
type hole struct{}

// hostFunc is a function value implemented by the executor (e.g. a context cancel func).
type hostFunc struct {
	name string
	f    func(in *interp, args []value) value
}

// nativeBox carries a host Go value through interpreted code opaquely.
type nativeBox struct{ v interface{} }

// iter is the state of a range loop over a map or string.
type iter interface {
	next(in *interp) tuple
}

func kindBits(k types.BasicKind) int {
	switch k {
	case types.Bool:
		return 0
	case types.Int8, types.Uint8:
		return 8
	case types.Int16, types.Uint16:
		return 16
	case types.Int32, types.Uint32:
		return 32
	case types.Int, types.Int64, types.Uint, types.Uint64, types.Uintptr, types.Float64:
		return 64
	}
	panic(fmt.Sprintf("kindBits: %v", k))
}

func kindSigned(k types.BasicKind) bool {
	switch k {
	case types.Int, types.Int8, types.Int16, types.Int32, types.Int64:
		return true
	}
	return false
}

// kindOf returns the basic kind of a concrete scalar value (Invalid if none).
func kindOf(x value) types.BasicKind {
	switch x := x.(type) {
	case bool:
		return types.Bool
	case int:
		return types.Int
	case int8:
		return types.Int8
	case int16:
		return types.Int16
	case int32:
		return types.Int32
	case int64:
		return types.Int64
	case uint:
		return types.Uint
	case uint8:
		return types.Uint8
	case uint16:
		return types.Uint16
	case uint32:
		return types.Uint32
	case uint64:
		return types.Uint64
	case uintptr:
		return types.Uintptr
	case *Sym:
		return x.K
	}
	return types.Invalid
}

// bitsOf returns the raw two's complement bits of a concrete integer/bool.
func bitsOf(x value) uint64 {
	switch x := x.(type) {
	case bool:
		if x {
			return 1
		}
		return 0
	case int:
		return uint64(x)
	case int8:
		return uint64(x)
	case int16:
		return uint64(x)
	case int32:
		return uint64(x)
	case int64:
		return uint64(x)
	case uint:
		return uint64(x)
	case uint8:
		return uint64(x)
	case uint16:
		return uint64(x)
	case uint32:
		return uint64(x)
	case uint64:
		return x
	case uintptr:
		return uint64(x)
	}
	panic(fmt.Sprintf("bitsOf: %T", x))
}

// fromBits builds a concrete value of kind k from raw bits.
func fromBits(k types.BasicKind, b uint64) value {
	switch k {
	case types.Bool:
		return b != 0
	case types.Int:
		return int(b)
	case types.Int8:
		return int8(b)
	case types.Int16:
		return int16(b)
	case types.Int32:
		return int32(b)
	case types.Int64:
		return int64(b)
	case types.Uint:
		return uint(b)
	case types.Uint8:
		return uint8(b)
	case types.Uint16:
		return uint16(b)
	case types.Uint32:
		return uint32(b)
	case types.Uint64:
		return b
	case types.Uintptr:
		return uintptr(b)
	case types.Float64:
		return math.Float64frombits(b)
	}
	panic(fmt.Sprintf("fromBits: %v", k))
}

// term lifts a scalar value (concrete or symbolic) to a solver term.
func (in *interp) term(x value) *smt.Term {
	switch x := x.(type) {
	case *Sym:
		return x.T
	case bool:
		return in.ctx.Bool(x)
	case float64:
		return in.ctx.Const(64, math.Float64bits(x))
	}
	k := kindOf(x)
	if k == types.Invalid {
		panic(abortPath{"UNSUPPORTED", fmt.Sprintf("term of %T", x)})
	}
	return in.ctx.Const(kindBits(k), bitsOf(x))
}

// mkval wraps a term as a value of kind k, concretising constants.
func mkval(t *smt.Term, k types.BasicKind) value {
	if t.IsConst() {
		return fromBits(k, t.Val)
	}
	return &Sym{T: t, K: k}
}

func isSym(x value) bool { _, ok := x.(*Sym); return ok }

func isPoison(x value) bool { _, ok := x.(poison); return ok }

// ---------------------------------------------------------------------------
// Ordered map with possibly symbolic keys.

type mentry struct {
	key, val value
	dead     bool
}

type omap struct {
	keyT    types.Type
	entries []*mentry
	idx     map[value]*mentry // concrete, natively hashable keys only
	n       int
	symKeys int // number of live entries whose key is not natively hashable/concrete
}

func newOmap(keyT types.Type) *omap {
	return &omap{keyT: keyT, idx: map[value]*mentry{}}
}

// nativeKey reports whether k can be used directly as a Go map key with the
// same equivalence relation as the target program.
func nativeKey(k value) bool {
	switch k.(type) {
	case bool, int, int8, int16, int32, int64, uint, uint8, uint16, uint32, uint64, uintptr,
		float32, float64, string, *value, *channel:
		return true
	}
	return false
}

func (m *omap) len() int { return m.n }

// find returns the entry for key k (forking on symbolic comparisons).
func (in *interp) mapFind(m *omap, k value) *mentry {
	if m == nil {
		return nil
	}
	if nativeKey(k) && m.symKeys == 0 {
		return m.idx[k]
	}
	for _, e := range m.entries {
		if e.dead {
			continue
		}
		if in.truth(in.equals(m.keyT, k, e.key)) {
			return e
		}
	}
	return nil
}

func (in *interp) mapInsert(m *omap, k, v value) {
	if e := in.mapFind(m, k); e != nil {
		e.val = v
		return
	}
	e := &mentry{key: k, val: v}
	m.entries = append(m.entries, e)
	m.n++
	if nativeKey(k) {
		m.idx[k] = e
	} else {
		m.symKeys++
	}
}

func (in *interp) mapDelete(m *omap, k value) {
	if m == nil {
		return
	}
	e := in.mapFind(m, k)
	if e == nil {
		return
	}
	e.dead = true
	m.n--
	if nativeKey(e.key) {
		delete(m.idx, e.key)
	} else {
		m.symKeys--
	}
	// compact occasionally
	if len(m.entries) > 32 && m.n < len(m.entries)/2 {
		live := m.entries[:0:0]
		for _, e := range m.entries {
			if !e.dead {
				live = append(live, e)
			}
		}
		m.entries = live
	}
}

type mapIter struct {
	m   *omap
	snap []*mentry
	i   int
}

func (it *mapIter) next(in *interp) tuple {
	for it.i < len(it.snap) {
		e := it.snap[it.i]
		it.i++
		if !e.dead {
			return tuple{true, e.key, e.val}
		}
	}
	return tuple{false, nil, nil}
}

type stringIter struct {
	s string
	i int
}

func (it *stringIter) next(in *interp) tuple {
	if it.i >= len(it.s) {
		return tuple{false, nil, nil}
	}
	for j, r := range it.s[it.i:] {
		_ = j
		start := it.i
		it.i += len(string(r))
		if r == 0xFFFD && it.s[start] != 0xEF {
			it.i = start + 1
		}
		return tuple{true, start, r}
	}
	return tuple{false, nil, nil}
}

// ---------------------------------------------------------------------------
// Equality

func sameType(x, y types.Type) bool {
	if x == nil {
		return y == nil
	}
	return y != nil && types.Identical(x, y)
}

// equals returns x == y for type t as a value (bool or *Sym of kind Bool).
func (in *interp) equals(t types.Type, x, y value) value {
	if isPoison(x) || isPoison(y) {
		return poison{"compare"}
	}
	switch cx := x.(type) {
	case codecNum, codecBlob:
		return in.deepEqual(cx, y, map[[2]*value]bool{})
	case codecDec20:
		if cy, ok := y.(codecDec20); ok {
			return mkval(in.ctx.Eq(cx.t, cy.t), types.Bool)
		}
		unsupported("comparison of a %%020d-formatted number with plain bytes")
	}
	switch y.(type) {
	case codecNum, codecBlob:
		return false // a plain byte never equals an encoded object
	case codecDec20:
		unsupported("comparison of a %%020d-formatted number with plain bytes")
	}
	if sx, ok := x.(*Sym); ok {
		if sx.K == types.Float64 {
			return mkval(in.ctx.FP("fp.eq", sx.T, in.term(y)), types.Bool)
		}
		return mkval(in.ctx.Eq(sx.T, in.term(y)), types.Bool)
	}
	if sy, ok := y.(*Sym); ok {
		if sy.K == types.Float64 {
			return mkval(in.ctx.FP("fp.eq", in.term(x), sy.T), types.Bool)
		}
		return mkval(in.ctx.Eq(in.term(x), sy.T), types.Bool)
	}
	switch x := x.(type) {
	case bool:
		return x == y.(bool)
	case int:
		return x == y.(int)
	case int8:
		return x == y.(int8)
	case int16:
		return x == y.(int16)
	case int32:
		return x == y.(int32)
	case int64:
		return x == y.(int64)
	case uint:
		return x == y.(uint)
	case uint8:
		return x == y.(uint8)
	case uint16:
		return x == y.(uint16)
	case uint32:
		return x == y.(uint32)
	case uint64:
		return x == y.(uint64)
	case uintptr:
		return x == y.(uintptr)
	case float32:
		return x == y.(float32)
	case float64:
		return x == y.(float64)
	case complex64:
		return x == y.(complex64)
	case complex128:
		return x == y.(complex128)
	case string:
		switch y := y.(type) {
		case string:
			return x == y
		case symstr:
			return in.strEq(symstrOf(x), y)
		}
	case symstr:
		return in.strEq(x, symstrOf(y))
	case *value:
		return x == y.(*value)
	case *channel:
		return x == y.(*channel)
	case *omap:
		return x == y.(*omap)
	case hole:
		return true
	case nativeBox:
		yb, ok := y.(nativeBox)
		return ok && x.v == yb.v
	case structure:
		y := y.(structure)
		st := t.Underlying().(*types.Struct)
		var conj []*smt.Term
		for i := range x {
			f := st.Field(i)
			if f.Name() == "_" {
				continue
			}
			e := in.equals(f.Type(), x[i], y[i])
			if b, ok := e.(bool); ok {
				if !b {
					return false
				}
				continue
			}
			if isPoison(e) {
				return e
			}
			conj = append(conj, e.(*Sym).T)
		}
		return mkval(in.ctx.And(conj...), types.Bool)
	case array:
		y := y.(array)
		et := t.Underlying().(*types.Array).Elem()
		var conj []*smt.Term
		for i := range x {
			e := in.equals(et, x[i], y[i])
			if b, ok := e.(bool); ok {
				if !b {
					return false
				}
				continue
			}
			if isPoison(e) {
				return e
			}
			conj = append(conj, e.(*Sym).T)
		}
		return mkval(in.ctx.And(conj...), types.Bool)
	case iface:
		y := y.(iface)
		if !sameType(x.t, y.t) {
			return false
		}
		if x.t == nil {
			return true
		}
		return in.equals(x.t, x.v, y.v)
	case *ssa.Function, *closure, *ssa.Builtin, *hostFunc:
		return x == y
	}
	panic(abortPath{"UNSUPPORTED", fmt.Sprintf("comparing uncomparable type %s (%T)", t, x)})
}

func symstrOf(x value) symstr {
	switch x := x.(type) {
	case symstr:
		return x
	case string:
		b := make([]value, len(x))
		for i := 0; i < len(x); i++ {
			b[i] = x[i]
		}
		return symstr{b}
	}
	panic(fmt.Sprintf("symstrOf %T", x))
}

// normStr turns a symstr without symbolic bytes back into a Go string.
func normStr(s symstr) value {
	buf := make([]byte, len(s.b))
	for i, c := range s.b {
		b, ok := c.(uint8)
		if !ok {
			return s
		}
		buf[i] = b
	}
	return string(buf)
}

func concByte(v value) (uint8, bool) { b, ok := v.(uint8); return b, ok }

func (in *interp) strEq(a, b symstr) value {
	if len(a.b) != len(b.b) {
		return false
	}
	// any concretely different pair of bytes decides the comparison
	for i := range a.b {
		x, okx := concByte(a.b[i])
		y, oky := concByte(b.b[i])
		if okx && oky && x != y {
			return false
		}
	}
	var conj []*smt.Term
	for i := range a.b {
		e := in.equals(types.Typ[types.Uint8], a.b[i], b.b[i])
		if bb, ok := e.(bool); ok {
			if !bb {
				return false
			}
			continue
		}
		conj = append(conj, e.(*Sym).T)
	}
	return mkval(in.ctx.And(conj...), types.Bool)
}

// strLess returns a < b lexicographically (orEq: a <= b).
func (in *interp) strLess(a, b symstr, orEq bool) value {
	c := in.ctx
	n := len(a.b)
	if len(b.b) < n {
		n = len(b.b)
	}
	// skip the concretely equal prefix; a concretely different pair decides at once
	start := 0
	for start < n {
		x, okx := concByte(a.b[start])
		y, oky := concByte(b.b[start])
		if !okx || !oky {
			break
		}
		if x != y {
			return x < y
		}
		start++
	}
	var rest *smt.Term
	if len(a.b) < len(b.b) {
		rest = c.Bool(true)
	} else if len(a.b) == len(b.b) {
		rest = c.Bool(orEq)
	} else {
		rest = c.Bool(false)
	}
	// positions after the first concretely different pair (if any) are irrelevant
	end := n
	for i := start; i < n; i++ {
		x, okx := concByte(a.b[i])
		y, oky := concByte(b.b[i])
		if okx && oky && x != y {
			end = i + 1
			break
		}
	}
	if end < n {
		rest = c.Bool(false) // overwritten by the deciding pair below
	}
	for i := end - 1; i >= start; i-- {
		var x, y *smt.Term
		dx, okx := a.b[i].(codecDec20)
		dy, oky := b.b[i].(codecDec20)
		switch {
		case okx && oky:
			x, y = dx.t, dy.t
		case okx || oky:
			unsupported("ordering of a %%020d-formatted number against plain bytes")
		default:
			x, y = in.term(a.b[i]), in.term(b.b[i])
		}
		rest = c.Or(c.Cmp("bvult", x, y), c.And(c.Eq(x, y), rest))
	}
	return mkval(rest, types.Bool)
}

// ---------------------------------------------------------------------------
// load/store with static type information (copy semantics of aggregates)

func load(T types.Type, addr *value) value {
	switch T := T.Underlying().(type) {
	case *types.Struct:
		v, ok := (*addr).(structure)
		if !ok {
			return *addr
		}
		a := make(structure, len(v))
		for i := range a {
			a[i] = load(T.Field(i).Type(), &v[i])
		}
		return a
	case *types.Array:
		v := (*addr).(array)
		a := make(array, len(v))
		for i := range a {
			a[i] = load(T.Elem(), &v[i])
		}
		return a
	default:
		return *addr
	}
}

func store(T types.Type, addr *value, v value) {
	switch T := T.Underlying().(type) {
	case *types.Struct:
		lhs, ok1 := (*addr).(structure)
		rhs, ok2 := v.(structure)
		if !ok1 || !ok2 {
			*addr = v
			return
		}
		for i := range lhs {
			store(T.Field(i).Type(), &lhs[i], rhs[i])
		}
	case *types.Array:
		lhs := (*addr).(array)
		rhs := v.(array)
		for i := range lhs {
			store(T.Elem(), &lhs[i], rhs[i])
		}
	default:
		*addr = v
	}
}

// copyVal returns a copy of v with value semantics for aggregates (no static type).
func copyVal(v value) value {
	switch v := v.(type) {
	case structure:
		a := make(structure, len(v))
		for i := range v {
			a[i] = copyVal(v[i])
		}
		return a
	case array:
		a := make(array, len(v))
		for i := range v {
			a[i] = copyVal(v[i])
		}
		return a
	}
	return v
}

// ---------------------------------------------------------------------------
// Printing (diagnostics)

func writeValue(buf *bytes.Buffer, v value, depth int) {
	if depth > 4 {
		buf.WriteString("…")
		return
	}
	switch v := v.(type) {
	case nil, bool, int, int8, int16, int32, int64, uint, uint8, uint16, uint32, uint64, uintptr, float32, float64, complex64, complex128, string:
		fmt.Fprintf(buf, "%v", v)
	case *Sym:
		s := v.T.String()
		if len(s) > 80 {
			s = s[:80] + "…"
		}
		fmt.Fprintf(buf, "sym<%s>", s)
	case symstr:
		buf.WriteString("symstr[")
		for i, e := range v.b {
			if i > 0 {
				buf.WriteString(" ")
			}
			writeValue(buf, e, depth+1)
		}
		buf.WriteString("]")
	case *omap:
		buf.WriteString("map[")
		if v != nil {
			sep := ""
			for _, e := range v.entries {
				if e.dead {
					continue
				}
				buf.WriteString(sep)
				sep = " "
				writeValue(buf, e.key, depth+1)
				buf.WriteString(":")
				writeValue(buf, e.val, depth+1)
			}
		}
		buf.WriteString("]")
	case *value:
		if v == nil {
			buf.WriteString("<nil>")
		} else {
			buf.WriteString("&")
			writeValue(buf, *v, depth+1)
		}
	case iface:
		fmt.Fprintf(buf, "(%v, ", v.t)
		writeValue(buf, v.v, depth+1)
		buf.WriteString(")")
	case structure:
		buf.WriteString("{")
		for i, e := range v {
			if i > 0 {
				buf.WriteString(" ")
			}
			writeValue(buf, e, depth+1)
		}
		buf.WriteString("}")
	case array:
		buf.WriteString("[")
		for i, e := range v {
			if i > 0 {
				buf.WriteString(" ")
			}
			writeValue(buf, e, depth+1)
		}
		buf.WriteString("]")
	case []value:
		buf.WriteString("[")
		for i, e := range v {
			if i > 0 {
				buf.WriteString(" ")
			}
			writeValue(buf, e, depth+1)
		}
		buf.WriteString("]")
	case tuple:
		buf.WriteString("(")
		for i, e := range v {
			if i > 0 {
				buf.WriteString(", ")
			}
			writeValue(buf, e, depth+1)
		}
		buf.WriteString(")")
	default:
		fmt.Fprintf(buf, "<%T>", v)
	}
}

func toString(v value) string {
	var b bytes.Buffer
	writeValue(&b, v, 0)
	return b.String()
}
