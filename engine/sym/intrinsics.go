package sym

import (
	"fmt"
	"regexp"
	"unsafe"
	"go/token"
	"go/types"
	"math"
	"sort"
	"strconv"
	"strings"

	"gosmt/smt"

	"golang.org/x/tools/go/ssa"
)

type intrinsic func(fr *frame, args []value) value

var intrinsics = map[string]intrinsic{}

const vpkg = "github.com/tikv/pd/pkg/zzvrf."

func init() {
	for k, v := range map[string]intrinsic{
		// harness API
		vpkg + "Uint64":   func(fr *frame, a []value) value { return fr.in.fresh(str(a[0]), types.Uint64) },
		vpkg + "Int64":    func(fr *frame, a []value) value { return fr.in.fresh(str(a[0]), types.Int64) },
		vpkg + "Uint32":   func(fr *frame, a []value) value { return fr.in.fresh(str(a[0]), types.Uint32) },
		vpkg + "Int32":    func(fr *frame, a []value) value { return fr.in.fresh(str(a[0]), types.Int32) },
		vpkg + "Int":      func(fr *frame, a []value) value { return fr.in.fresh(str(a[0]), types.Int) },
		vpkg + "Byte":     func(fr *frame, a []value) value { return fr.in.fresh(str(a[0]), types.Uint8) },
		vpkg + "Float64":  func(fr *frame, a []value) value { return fr.in.fresh(str(a[0]), types.Float64) },
		vpkg + "Bool":     func(fr *frame, a []value) value { return fr.in.fresh(str(a[0]), types.Bool) },
		vpkg + "IntRange": vIntRange,
		vpkg + "Choice":   vChoice,
		vpkg + "Bytes":    vBytes,
		vpkg + "Assume":   func(fr *frame, a []value) value { fr.in.assume(a[0]); return nil },
		vpkg + "Assert":   func(fr *frame, a []value) value { fr.in.assertCond(str(a[0]), a[1]); return nil },
		vpkg + "Reach":    func(fr *frame, a []value) value { fr.in.reached[str(a[0])] = true; return nil },
		vpkg + "Observe":  vObserve,
		vpkg + "And":      vAnd,
		vpkg + "Or":       vOr,
		vpkg + "Not":      func(fr *frame, a []value) value { return fr.in.not(a[0]) },
		vpkg + "Implies":  func(fr *frame, a []value) value { return fr.in.boolOp("or", fr.in.not(a[0]), a[1]) },
		vpkg + "Iff":      func(fr *frame, a []value) value { return fr.in.equals(types.Typ[types.Bool], a[0], a[1]) },
		vpkg + "IteU64":   func(fr *frame, a []value) value { return fr.in.ite(a[0], a[1], a[2]) },
		vpkg + "IteI64":   func(fr *frame, a []value) value { return fr.in.ite(a[0], a[1], a[2]) },
		vpkg + "IteInt":   func(fr *frame, a []value) value { return fr.in.ite(a[0], a[1], a[2]) },
		vpkg + "IteBool":  func(fr *frame, a []value) value { return fr.in.ite(a[0], a[1], a[2]) },
		vpkg + "Concrete": func(fr *frame, a []value) value { return int(fr.in.concInt(a[0])) },
		vpkg + "ConcreteU64": func(fr *frame, a []value) value { return uint64(fr.in.concInt(a[0])) },
		vpkg + "ConcreteBool": func(fr *frame, a []value) value { return fr.in.truth(a[0]) },
		vpkg + "Par":      func(fr *frame, a []value) value { fr.in.par(fr, a[0].([]value)); return nil },
		vpkg + "Interleave": func(fr *frame, a []value) value { fr.in.interleave(fr, a[0], a[1]); return nil },
		vpkg + "FixClock": func(fr *frame, a []value) value {
			// the fixed instant may be symbolic (one clock variable the harness controls)
			if c, ok := a[0].(int64); ok && c == 0 {
				fr.in.fixedClock = nil
			} else {
				fr.in.fixedClock = a[0]
			}
			return nil
		},
		vpkg + "Yield":    func(fr *frame, a []value) value { fr.in.yield(); return nil },
		vpkg + "Param": func(fr *frame, a []value) value {
			if x, ok := fr.in.x.cfg.Params[str(a[0])]; ok {
				return x
			}
			return a[1]
		},
		vpkg + "Symbolic": func(fr *frame, a []value) value { return true },
		vpkg + "BytesEq":  vBytesEq,
		vpkg + "BytesLess": vBytesLess,
		vpkg + "StrEq":    func(fr *frame, a []value) value { return fr.in.binop(token.EQL, types.Typ[types.String], a[0], a[1]) },
		vpkg + "ErrIs":    vErrIs,

		// sync
		"(*sync.Mutex).Lock":      func(fr *frame, a []value) value { fr.in.lock(fr, a[0].(*value)); return nil },
		"(*sync.Mutex).Unlock":    func(fr *frame, a []value) value { fr.in.unlock(a[0].(*value)); return nil },
		"(*sync.Mutex).TryLock":   func(fr *frame, a []value) value { unsupported("TryLock"); return nil },
		"(*sync.RWMutex).Lock":    func(fr *frame, a []value) value { fr.in.lock(fr, a[0].(*value)); return nil },
		"(*sync.RWMutex).Unlock":  func(fr *frame, a []value) value { fr.in.unlock(a[0].(*value)); return nil },
		"(*sync.RWMutex).RLock":   func(fr *frame, a []value) value { fr.in.rlock(fr, a[0].(*value)); return nil },
		"(*sync.RWMutex).RUnlock": func(fr *frame, a []value) value { fr.in.runlock(a[0].(*value)); return nil },
		"(*sync.WaitGroup).Add":   func(fr *frame, a []value) value { return nil },
		"(*sync.WaitGroup).Done":  func(fr *frame, a []value) value { return nil },
		"(*sync.WaitGroup).Wait":  func(fr *frame, a []value) value { return nil },
		"(*sync.Once).Do":         syncOnceDo,
		"(*sync.Pool).Get":        func(fr *frame, a []value) value { unsupported("sync.Pool"); return nil },

		// sync/atomic
		"(*sync/atomic.Value).Load":  atomicValueLoad,
		"(*sync/atomic.Value).Store": atomicValueStore,
		"sync/atomic.LoadPointer": atomicLoad, "sync/atomic.StorePointer": atomicStore, "sync/atomic.LoadUintptr": atomicLoad, "sync/atomic.StoreUintptr": atomicStore,
		"sync/atomic.LoadInt32":      atomicLoad, "sync/atomic.LoadInt64": atomicLoad, "sync/atomic.LoadUint32": atomicLoad, "sync/atomic.LoadUint64": atomicLoad,
		"sync/atomic.StoreInt32": atomicStore, "sync/atomic.StoreInt64": atomicStore, "sync/atomic.StoreUint32": atomicStore, "sync/atomic.StoreUint64": atomicStore,
		"sync/atomic.AddInt32": atomicAdd, "sync/atomic.AddInt64": atomicAdd, "sync/atomic.AddUint32": atomicAdd, "sync/atomic.AddUint64": atomicAdd,
		"sync/atomic.CompareAndSwapInt32": atomicCAS, "sync/atomic.CompareAndSwapInt64": atomicCAS, "sync/atomic.CompareAndSwapUint32": atomicCAS, "sync/atomic.CompareAndSwapUint64": atomicCAS,
		"sync/atomic.SwapInt32": atomicSwap, "sync/atomic.SwapInt64": atomicSwap, "sync/atomic.SwapUint32": atomicSwap, "sync/atomic.SwapUint64": atomicSwap,

		// runtime / misc
		"runtime.Caller":     func(fr *frame, a []value) value { return tuple{uintptr(0), "", 0, false} },
		"runtime.Callers":    func(fr *frame, a []value) value { return 0 },
		"runtime.Gosched":    func(fr *frame, a []value) value { return nil },
		"runtime.KeepAlive":  func(fr *frame, a []value) value { return nil },
		"github.com/pingcap/errors.callers": func(fr *frame, a []value) value { return (*value)(nil) },
		"github.com/pingcap/errors.callersSkip": func(fr *frame, a []value) value { return (*value)(nil) },
		"go.etcd.io/etcd/clientv3.isOpFuncCalled": func(fr *frame, a []value) value {
			// the real code identifies the option by reflection on the function name
			op := str(a[0])
			for _, o := range a[1].([]value) {
				if strings.Contains(calleeName(o), op) {
					return true
				}
			}
			return false
		},
		"internal/abi.NoEscape": func(fr *frame, a []value) value { return a[0] },
		"(*strings.Builder).String": func(fr *frame, a []value) value {
			// struct{ addr *Builder; buf []byte }
			b := (*a[0].(*value)).(structure)
			buf, _ := b[1].([]value)
			return normStr(symstr{append([]value{}, buf...)})
		},
		"fmt.Fprintf": func(fr *frame, a []value) value {
			in := fr.in
			str := in.sprintf(a[1], a[2].([]value))
			w := a[0].(iface)
			if w.t == nil {
				panic("fmt.Fprintf: nil writer")
			}
			if _, isHole := w.v.(hole); isHole {
				return tuple{0, iface{}}
			}
			wr := in.findMethod(w.t, "Write")
			if wr == nil {
				unsupported("fmt.Fprintf: writer %v has no Write method", w.t)
			}
			data := in.conv(types.NewSlice(types.Typ[types.Uint8]), types.Typ[types.String], str)
			in.call(fr, fr.callpos, wr, []value{w.v, data})
			return tuple{len(symstrOf(str).b), iface{}}
		},
		// minimal reflect: ValueOf(x).Len() as used by pkg/slice
		"reflect.ValueOf": func(fr *frame, a []value) value { return structure{nativeBox{a[0]}, unsafe.Pointer(nil), uintptr(0)} },
		"(reflect.Value).Len": func(fr *frame, a []value) value {
			box, ok := a[0].(structure)[0].(nativeBox)
			if !ok {
				unsupported("reflect.Value.Len on a value not produced by reflect.ValueOf")
			}
			switch x := box.v.(iface).v.(type) {
			case []value:
				return len(x)
			case string:
				return len(x)
			case symstr:
				return len(x.b)
			case array:
				return len(x)
			case *omap:
				if x == nil {
					return 0
				}
				return x.len()
			}
			unsupported("reflect.Value.Len of %T", box.v.(iface).v)
			return nil
		},
		"reflect.TypeOf": func(fr *frame, a []value) value {
			x := a[0].(iface)
			if x.t == nil {
				return iface{}
			}
			return iface{t: holeType, v: rtypeBox{x.t}}
		},
		"(reflect.Value).IsNil": func(fr *frame, a []value) value {
			box, ok := a[0].(structure)[0].(nativeBox)
			if !ok {
				unsupported("reflect.Value.IsNil on a value not produced by reflect.ValueOf")
			}
			switch x := box.v.(iface).v.(type) {
			case *value:
				return x == nil
			case *omap:
				return x == nil
			case []value:
				return x == nil
			case iface:
				return x.t == nil
			case *ssa.Function:
				return x == nil
			case *closure:
				return x == nil
			}
			panic("reflect: call of reflect.Value.IsNil on a non-nillable value")
		},
		"google.golang.org/grpc/status.Errorf": func(fr *frame, a []value) value {
			return fr.in.newError(fr.in.sprintf(a[1], a[2].([]value)))
		},
		"google.golang.org/grpc/status.Error": func(fr *frame, a []value) value { return fr.in.newError(a[1]) },
		"path/filepath.Abs": func(fr *frame, a []value) value { return tuple{a[0], iface{}} },
		"path/filepath.Join": func(fr *frame, a []value) value {
			var parts []string
			for _, p := range a[0].([]value) {
				parts = append(parts, concStr(p, "filepath.Join"))
			}
			return pathJoin(parts)
		},
		"internal/bytealg.CountString": func(fr *frame, a []value) value {
			return strings.Count(concStr(a[0], "CountString"), string([]byte{a[1].(uint8)}))
		},
		"internal/bytealg.IndexByteString": func(fr *frame, a []value) value {
			return strings.IndexByte(concStr(a[0], "IndexByteString"), a[1].(uint8))
		},
		"internal/bytealg.IndexString": func(fr *frame, a []value) value {
			return strings.Index(concStr(a[0], "IndexString"), concStr(a[1], "IndexString"))
		},
		"internal/bytealg.LastIndexByteString": func(fr *frame, a []value) value {
			return strings.LastIndexByte(concStr(a[0], "LastIndexByteString"), a[1].(uint8))
		},
		"regexp.MatchString": func(fr *frame, a []value) value {
			ok, err := regexp.MatchString(concStr(a[0], "regexp.MatchString"), concStr(a[1], "regexp.MatchString"))
			return tuple{ok, fr.in.hostErr(err)}
		},
		"os.Hostname": func(fr *frame, a []value) value { return tuple{"verif-host", iface{}} },
		"os.Getenv":   func(fr *frame, a []value) value { return "" },
		"time.Sleep":         func(fr *frame, a []value) value { return nil },
		// math/rand: fresh symbolic values within the documented range (DESIGN.md §3.5)
		"math/rand.Seed":   func(fr *frame, a []value) value { return nil },
		"math/rand.Intn":   func(fr *frame, a []value) value { return fr.in.randBelow("rand.Intn", a[0], types.Int) },
		"math/rand.Int63n": func(fr *frame, a []value) value { return fr.in.randBelow("rand.Int63n", a[0], types.Int64) },
		"math/rand.Int31n": func(fr *frame, a []value) value { return fr.in.randBelow("rand.Int31n", a[0], types.Int32) },
		"math/rand.Uint32": func(fr *frame, a []value) value { return fr.in.fresh("rand.Uint32", types.Uint32) },
		"math/rand.Uint64": func(fr *frame, a []value) value { return fr.in.fresh("rand.Uint64", types.Uint64) },
		"math/rand.Perm": func(fr *frame, a []value) value {
			n := int(fr.in.concInt(a[0]))
			out := make([]value, n)
			for i := range out {
				out[i] = i
			}
			return out // identity permutation (stated: one order only)
		},
		"math/rand.Shuffle": func(fr *frame, a []value) value { return nil }, // identity shuffle (stated)
		// contexts are never cancelled and never time out (DESIGN.md §3.5)
		"context.WithTimeout":  ctxWithCancel,
		"context.WithDeadline": ctxWithCancel,
		"context.WithCancel":   ctxWithCancel,

		// fmt / strconv / strings: native when concrete
		"fmt.Sprintf": fmtSprintf,
		"fmt.Errorf":  fmtErrorf,
		"fmt.Sprint":  fmtSprint,
		"fmt.Sprintln": fmtSprint,
		"fmt.Println": func(fr *frame, a []value) value { return tuple{0, iface{}} },
		"fmt.Printf":  func(fr *frame, a []value) value { return tuple{0, iface{}} },
		"errors.New":  errorsNew,
		"strconv.ParseFloat": func(fr *frame, a []value) value {
			v, err := strconv.ParseFloat(concStr(a[0], "strconv.ParseFloat"), int(asInt64(a[1])))
			return tuple{v, fr.in.hostErr(err)}
		},
		"strconv.FormatFloat": func(fr *frame, a []value) value {
			return strconv.FormatFloat(a[0].(float64), a[1].(byte), a[2].(int), a[3].(int))
		},
		"strconv.Quote": func(fr *frame, a []value) value { return strconv.Quote(concStr(a[0], "strconv.Quote")) },
		"strings.HasPrefix": stringsHasPrefix,
		"strings.HasSuffix": stringsHasSuffix,
		"strings.TrimSpace": func(fr *frame, a []value) value {
			if s, ok := a[0].(string); ok {
				return strings.TrimSpace(s)
			}
			return a[0] // symbolic strings are assumed to carry no surrounding space (binary keys)
		},
		"strings.Join": func(fr *frame, a []value) value {
			var parts []string
			for _, p := range a[0].([]value) {
				parts = append(parts, concStr(p, "strings.Join"))
			}
			return strings.Join(parts, concStr(a[1], "strings.Join"))
		},
		"strings.Split": func(fr *frame, a []value) value {
			ps := strings.Split(concStr(a[0], "strings.Split"), concStr(a[1], "strings.Split"))
			out := make([]value, len(ps))
			for i, p := range ps {
				out[i] = p
			}
			return out
		},
		"strings.Contains":  func(fr *frame, a []value) value { return strings.Contains(concStr(a[0], "strings.Contains"), concStr(a[1], "strings.Contains")) },
		"strings.ToLower": func(fr *frame, a []value) value {
			if s, ok := a[0].(string); ok {
				return strings.ToLower(s)
			}
			return "<symbolic string, case-mapped>" // only reaches messages in the encoded code
		},
		"strings.ToUpper": func(fr *frame, a []value) value {
			if s, ok := a[0].(string); ok {
				return strings.ToUpper(s)
			}
			return "<symbolic string, case-mapped>"
		},
		"strings.EqualFold": func(fr *frame, a []value) value {
			x, xok := a[0].(string)
			y, yok := a[1].(string)
			if xok && yok {
				return strings.EqualFold(x, y)
			}
			// ASCII case folding on (partly) symbolic bytes; non-ASCII folding is outside the model
			sa, sb := symstrOf(a[0]), symstrOf(a[1])
			if len(sa.b) != len(sb.b) {
				return false
			}
			in := fr.in
			c := in.ctx
			fold := func(v value) *smt.Term {
				t := in.term(v)
				isUpper := c.And(c.Cmp("bvule", c.Const(8, 'A'), t), c.Cmp("bvule", t, c.Const(8, 'Z')))
				return c.Ite(isUpper, c.BV2("bvadd", t, c.Const(8, 32)), t)
			}
			var conj []*smt.Term
			for i := range sa.b {
				conj = append(conj, c.Eq(fold(sa.b[i]), fold(sb.b[i])))
			}
			return mkval(c.And(conj...), types.Bool)
		},
		"strings.Index":     func(fr *frame, a []value) value { return strings.Index(concStr(a[0], "strings.Index"), concStr(a[1], "strings.Index")) },
		"strings.TrimPrefix": func(fr *frame, a []value) value { return strings.TrimPrefix(concStr(a[0], "TrimPrefix"), concStr(a[1], "TrimPrefix")) },
		"strings.TrimSuffix": func(fr *frame, a []value) value { return strings.TrimSuffix(concStr(a[0], "TrimSuffix"), concStr(a[1], "TrimSuffix")) },
		"strings.Compare":   func(fr *frame, a []value) value { return fr.in.cmp3(symstrOf(a[0]), symstrOf(a[1])) },
		"path.Join": func(fr *frame, a []value) value {
			elems := a[0].([]value)
			allConc := true
			for _, p := range elems {
				if _, ok := p.(string); !ok {
					allConc = false
				}
			}
			if allConc {
				var parts []string
				for _, p := range elems {
					parts = append(parts, p.(string))
				}
				return pathJoin(parts)
			}
			// some element carries symbolic / encoded bytes: clean concrete runs, join with '/'
			var out []value
			var run []string
			flush := func() {
				if len(run) == 0 {
					return
				}
				j := pathJoin(run)
				run = nil
				if j == "" {
					return
				}
				if len(out) > 0 {
					out = append(out, uint8('/'))
				}
				out = append(out, symstrOf(j).b...)
			}
			for _, p := range elems {
				if s, ok := p.(string); ok {
					run = append(run, s)
					continue
				}
				flush()
				if len(out) > 0 {
					out = append(out, uint8('/'))
				}
				out = append(out, p.(symstr).b...)
			}
			flush()
			return normStr(symstr{out})
		},
		"bytes.Equal":   func(fr *frame, a []value) value { return fr.in.strEq(bytesOf(a[0]), bytesOf(a[1])) },
		"bytes.Compare": func(fr *frame, a []value) value { return fr.in.cmp3(bytesOf(a[0]), bytesOf(a[1])) },
		"bytes.HasPrefix": func(fr *frame, a []value) value {
			x, p := bytesOf(a[0]), bytesOf(a[1])
			if len(p.b) > len(x.b) {
				return false
			}
			return fr.in.strEq(symstr{x.b[:len(p.b)]}, p)
		},
		"sort.Slice":       sortSlice,
		"sort.SliceStable": sortSlice,
		"sort.Sort":        sortSort,
		"sort.Stable":      sortSort,
		"sort.Strings": func(fr *frame, a []value) value {
			x := a[0].([]value)
			sort.SliceStable(x, func(i, j int) bool { return concStr(x[i], "sort.Strings") < concStr(x[j], "sort.Strings") })
			return nil
		},
		"math.Float64bits":     func(fr *frame, a []value) value { return math.Float64bits(a[0].(float64)) },
		"math.Float64frombits": func(fr *frame, a []value) value { return math.Float64frombits(a[0].(uint64)) },
		"math.Float32bits":     func(fr *frame, a []value) value { return math.Float32bits(a[0].(float32)) },
		"math.Float32frombits": func(fr *frame, a []value) value { return math.Float32frombits(a[0].(uint32)) },
		"math.Log2":  func(fr *frame, a []value) value { return math.Log2(a[0].(float64)) },
		"math.Log":   func(fr *frame, a []value) value { return math.Log(a[0].(float64)) },
		"math.Ceil":  func(fr *frame, a []value) value { return math.Ceil(a[0].(float64)) },
		"math.Floor": func(fr *frame, a []value) value { return math.Floor(a[0].(float64)) },
		"math.Pow":   func(fr *frame, a []value) value { return math.Pow(a[0].(float64), a[1].(float64)) },
		"math.Sqrt":  func(fr *frame, a []value) value { return math.Sqrt(a[0].(float64)) },
		"math.Abs":   func(fr *frame, a []value) value { return math.Abs(a[0].(float64)) },
		"math.Max":   func(fr *frame, a []value) value { return math.Max(a[0].(float64), a[1].(float64)) },
		"math.Min":   func(fr *frame, a []value) value { return math.Min(a[0].(float64), a[1].(float64)) },
		"math.Inf":   func(fr *frame, a []value) value { return math.Inf(a[0].(int)) },
		"math.IsNaN": func(fr *frame, a []value) value { return math.IsNaN(a[0].(float64)) },
		"math.IsInf": func(fr *frame, a []value) value { return math.IsInf(a[0].(float64), a[1].(int)) },
		"math.Round": func(fr *frame, a []value) value { return math.Round(a[0].(float64)) },
		"math.Trunc": func(fr *frame, a []value) value { return math.Trunc(a[0].(float64)) },
		"math.Exp":   func(fr *frame, a []value) value { return math.Exp(a[0].(float64)) },
	} {
		intrinsics[k] = v
	}
}

func str(v value) string {
	s, ok := v.(string)
	if !ok {
		unsupported("expected a concrete string, got %T", v)
	}
	return s
}

func concStr(v value, what string) string {
	s, ok := v.(string)
	if !ok {
		unsupported("%s on a string with symbolic bytes", what)
	}
	return s
}

func concOnly(v value, what string) int64 {
	if isSym(v) {
		unsupported("%s on a symbolic integer", what)
	}
	return asInt64(v)
}

func bytesOf(v value) symstr {
	switch v := v.(type) {
	case []value:
		return symstr{v}
	case string, symstr:
		return symstrOf(v)
	}
	panic(fmt.Sprintf("bytesOf %T", v))
}

func pathJoin(parts []string) string {
	// path.Join semantics via the host implementation
	return hostPathJoin(parts...)
}

// fresh creates a new named symbolic input (or a pinned concrete one).
func (in *interp) fresh(name string, k types.BasicKind) value {
	n := in.nondetN[name]
	in.nondetN[name] = n + 1
	full := fmt.Sprintf("%s#%d", name, n)
	if in.x.cfg.Pin != nil {
		return fromBits(k, in.x.cfg.Pin[full])
	}
	t := in.ctx.Var(full, kindBits(k))
	in.nondets = append(in.nondets, nondet{full, t})
	return &Sym{T: t, K: k}
}

func vIntRange(fr *frame, a []value) value {
	in := fr.in
	v := in.fresh(str(a[0]), types.Int)
	lo, hi := a[1], a[2]
	in.assume(in.binop(token.LEQ, types.Typ[types.Int], lo, v))
	in.assume(in.binop(token.LEQ, types.Typ[types.Int], v, hi))
	return v
}

func vChoice(fr *frame, a []value) value {
	in := fr.in
	n := int(in.concInt(a[1]))
	v := in.fresh(str(a[0]), types.Int)
	if c, ok := v.(int); ok {
		return c
	}
	s := v.(*Sym)
	in.assume(mkval(in.ctx.Cmp("bvult", s.T, in.ctx.Const(64, uint64(n))), types.Bool))
	for i := 0; i < n-1; i++ {
		if in.decide(in.ctx.Eq(s.T, in.ctx.Const(64, uint64(i)))) {
			return i
		}
	}
	return n - 1
}

func vBytes(fr *frame, a []value) value {
	in := fr.in
	n := int(in.concInt(a[1]))
	out := make([]value, n)
	for i := range out {
		out[i] = in.fresh(fmt.Sprintf("%s[%d]", str(a[0]), i), types.Uint8)
	}
	return out
}

func vObserve(fr *frame, a []value) value {
	v := a[1]
	if i, ok := v.(iface); ok {
		if i.t == nil {
			v = "<nil>"
		} else if types.Identical(i.t, types.Universe.Lookup("error").Type()) || types.Implements(i.t, types.Universe.Lookup("error").Type().Underlying().(*types.Interface)) {
			v = "<error>"
		} else {
			v = i.v
		}
	}
	fr.in.observes = append(fr.in.observes, observation{str(a[0]), v})
	return nil
}

func (in *interp) boolOp(op string, xs ...value) value {
	ts := make([]*smt.Term, len(xs))
	for i, x := range xs {
		if isPoison(x) {
			return x
		}
		ts[i] = in.term(x)
	}
	if op == "and" {
		return mkval(in.ctx.And(ts...), types.Bool)
	}
	return mkval(in.ctx.Or(ts...), types.Bool)
}

func vAnd(fr *frame, a []value) value { return fr.in.boolOp("and", a[0].([]value)...) }
func vOr(fr *frame, a []value) value  { return fr.in.boolOp("or", a[0].([]value)...) }

func vBytesEq(fr *frame, a []value) value  { return fr.in.strEq(bytesOf(a[0]), bytesOf(a[1])) }
func vBytesLess(fr *frame, a []value) value { return fr.in.strLess(bytesOf(a[0]), bytesOf(a[1]), false) }

// cmp3 returns -1/0/+1 for a three-way byte-string comparison (symbolic if needed).
func (in *interp) cmp3(a, b symstr) value {
	lt := in.strLess(a, b, false)
	eq := in.strEq(a, b)
	if l, ok := lt.(bool); ok {
		if e, ok := eq.(bool); ok {
			switch {
			case l:
				return -1
			case e:
				return 0
			}
			return 1
		}
	}
	c := in.ctx
	t := c.Ite(in.term(lt), c.Const(64, ^uint64(0)), c.Ite(in.term(eq), c.Const(64, 0), c.Const(64, 1)))
	return mkval(t, types.Int)
}

func stringsHasPrefix(fr *frame, a []value) value {
	x, p := symstrOf(a[0]), symstrOf(a[1])
	if len(p.b) > len(x.b) {
		return false
	}
	return fr.in.strEq(symstr{x.b[:len(p.b)]}, p)
}

func stringsHasSuffix(fr *frame, a []value) value {
	x, p := symstrOf(a[0]), symstrOf(a[1])
	if len(p.b) > len(x.b) {
		return false
	}
	return fr.in.strEq(symstr{x.b[len(x.b)-len(p.b):]}, p)
}

// ---------------------------------------------------------------------------
// errors created by the host side (strconv etc.) and errors.New / fmt.Errorf

// hostErr converts a host error to a target error value.
func (in *interp) hostErr(err error) value {
	if err == nil {
		return iface{}
	}
	return in.newError(err.Error())
}

// newError builds an *errors.errorString value when package errors is loaded.
func (in *interp) newError(msg value) value {
	pkg := in.prog.ImportedPackage("errors")
	if pkg == nil {
		unsupported("package errors not loaded")
	}
	t := pkg.Pkg.Scope().Lookup("errorString").Type()
	cell := value(structure{msg})
	return iface{t: types.NewPointer(t), v: &cell}
}

func errorsNew(fr *frame, a []value) value { return fr.in.newError(a[0]) }

func fmtErrorf(fr *frame, a []value) value {
	return fr.in.newError(fr.in.sprintf(a[0], a[1].([]value)))
}

func fmtSprintf(fr *frame, a []value) value { return fr.in.sprintf(a[0], a[1].([]value)) }

func fmtSprint(fr *frame, a []value) value {
	var parts []string
	for _, x := range a[0].([]value) {
		h, ok := fr.in.hostArg(x)
		if !ok {
			return "<symbolic>"
		}
		parts = append(parts, fmt.Sprint(h))
	}
	return strings.Join(parts, " ")
}

// hostArg converts an interface-typed target value into a host value for fmt.
func (in *interp) hostArg(x value) (interface{}, bool) {
	i, ok := x.(iface)
	if !ok {
		return nil, false
	}
	if i.t == nil {
		return nil, true
	}
	// error / Stringer: call the interpreted method
	for _, m := range []string{"Error", "String"} {
		if meth := in.findMethod(i.t, m); meth != nil && meth.Signature.Params().Len() == 0 && meth.Signature.Results().Len() == 1 {
			if b, ok := meth.Signature.Results().At(0).Type().Underlying().(*types.Basic); ok && b.Kind() == types.String {
				if in.x.cfg.isHolePkg(fnPkgPath(meth)) {
					return "<opaque>", true
				}
				r := in.call(nil, token.NoPos, meth, []value{i.v})
				if s, ok := r.(string); ok {
					return s, true
				}
				return "<symbolic>", true
			}
		}
	}
	switch v := i.v.(type) {
	case bool, int, int8, int16, int32, int64, uint, uint8, uint16, uint32, uint64, uintptr, float32, float64, string:
		return v, true
	case []value:
		buf := make([]byte, len(v))
		for k, e := range v {
			b, ok := e.(uint8)
			if !ok {
				return nil, false
			}
			buf[k] = b
		}
		return buf, true
	case *Sym, symstr:
		return nil, false
	}
	return fmt.Sprintf("<%v>", i.t), true
}

func (in *interp) findMethod(t types.Type, name string) *ssa.Function {
	ms := in.prog.MethodSets.MethodSet(t)
	for i := 0; i < ms.Len(); i++ {
		sel := ms.At(i)
		if sel.Obj().Name() == name {
			return in.prog.MethodValue(sel)
		}
	}
	return nil
}

func (in *interp) sprintf(format value, args []value) value {
	f, ok := format.(string)
	if !ok {
		return "<symbolic format>"
	}
	if f == "%020d" && len(args) == 1 {
		// key builders (storePath, regionPath, ...): always the order-preserving codec, also for constants
		if i, ok := args[0].(iface); ok {
			if r := in.dec20(i.v); r != nil {
				return r
			}
		}
	}
	hs := make([]interface{}, len(args))
	for k, x := range args {
		h, ok := in.hostArg(x)
		if !ok {
			if r := in.symSprintf(f, args); r != nil {
				return r
			}
			return f + "<symbolic>"
		}
		hs[k] = h
	}
	return fmt.Sprintf(f, hs...)
}

// symSprintf handles the few formats whose result is needed symbolically.
func (in *interp) symSprintf(f string, args []value) value {
	return nil
}

// dec20 renders x with "%020d" as an order-preserving codec element.
func (in *interp) dec20(x value) value {
	k := kindOf(x)
	if k == types.Invalid || kindBits(k) != 64 {
		return nil
	}
	return symstr{[]value{codecDec20{in.term(x)}}}
}

// vErrIs reports whether err (target error value) was produced from the given
// *errors.Error prototype (pingcap/errors), by pointer-free structural identity
// of the RFC code text.
func vErrIs(fr *frame, a []value) value {
	unsupported("ErrIs not implemented")
	return nil
}

// ---------------------------------------------------------------------------
// sync.Once, atomics

func syncOnceDo(fr *frame, a []value) value {
	p := a[0].(*value)
	l := fr.in.lockOf(p)
	if l.readers == 0 { // reuse readers as the "done" flag
		l.readers = -1 << 30
		fr.in.call(fr, fr.callpos, a[1], nil)
	}
	return nil
}

// atomic.Value is struct{ v any }
func atomicValueLoad(fr *frame, a []value) value {
	if schedEligible(fr) {
		fr.in.yield()
	}
	p := a[0].(*value)
	return (*p).(structure)[0]
}

func atomicValueStore(fr *frame, a []value) value {
	if schedEligible(fr) {
		fr.in.yield()
	}
	p := a[0].(*value)
	if a[1].(iface).t == nil {
		panic("sync/atomic: store of nil value into Value")
	}
	(*p).(structure)[0] = a[1]
	return nil
}

func atomicLoad(fr *frame, a []value) value {
	return *a[0].(*value)
}

func atomicStore(fr *frame, a []value) value {
	*a[0].(*value) = a[1]
	return nil
}

func atomicAdd(fr *frame, a []value) value {
	p := a[0].(*value)
	*p = fr.in.binop(token.ADD, nil, *p, a[1])
	return *p
}

func atomicSwap(fr *frame, a []value) value {
	p := a[0].(*value)
	old := *p
	*p = a[1]
	return old
}

func atomicCAS(fr *frame, a []value) value {
	p := a[0].(*value)
	if fr.in.truth(fr.in.binop(token.EQL, types.Typ[types.Int64], *p, a[1])) {
		*p = a[2]
		return true
	}
	return false
}

// ---------------------------------------------------------------------------
// sorting with interpreted comparison functions (insertion sort: stable,
// deterministic, forks on symbolic comparisons)

func sortSlice(fr *frame, a []value) value {
	in := fr.in
	sl, ok := a[0].(iface).v.([]value)
	if !ok {
		return nil
	}
	less := a[1]
	// sort a permutation of indices so that less(i, j) refers to stable positions
	n := len(sl)
	tmp := make([]value, n)
	copy(tmp, sl)
	// insertion sort directly on the slice, calling less with current positions
	for i := 1; i < n; i++ {
		for j := i; j > 0; j-- {
			if !in.truth(in.call(fr, fr.callpos, less, []value{j, j - 1})) {
				break
			}
			sl[j], sl[j-1] = sl[j-1], sl[j]
		}
	}
	return nil
}

func sortSort(fr *frame, a []value) value {
	in := fr.in
	data := a[0].(iface)
	if data.t == nil {
		panic("sort.Sort(nil)")
	}
	lenF, lessF, swapF := in.findMethod(data.t, "Len"), in.findMethod(data.t, "Less"), in.findMethod(data.t, "Swap")
	n := int(in.concInt(in.call(fr, fr.callpos, lenF, []value{data.v})))
	for i := 1; i < n; i++ {
		for j := i; j > 0; j-- {
			if !in.truth(in.call(fr, fr.callpos, lessF, []value{data.v, j, j - 1})) {
				break
			}
			in.call(fr, fr.callpos, swapF, []value{data.v, j, j - 1})
		}
	}
	return nil
}

var noopCancel = &hostFunc{name: "context.cancel", f: func(in *interp, args []value) value { return nil }}

func ctxWithCancel(fr *frame, a []value) value { return tuple{a[0], noopCancel} }

func (in *interp) randBelow(name string, n value, k types.BasicKind) value {
	if _, sym := n.(*Sym); !sym && in.concInt(n) == 1 {
		return fromBits(k, 0) // the only value below 1
	}
	v := in.fresh(name, k)
	in.assume(in.binop(token.GEQ, nil, v, fromBits(k, 0)))
	in.assume(in.binop(token.LSS, nil, v, n))
	return v
}

// rtypeBox is the executor's reflect.Type: only Kind, Name and String are supported.
type rtypeBox struct{ t types.Type }

func rtypeMethod(rb rtypeBox, name string) value {
	switch name {
	case "Kind":
		switch u := rb.t.Underlying().(type) {
		case *types.Pointer:
			return uint(22)
		case *types.Struct:
			return uint(25)
		case *types.Slice:
			return uint(23)
		case *types.Map:
			return uint(21)
		case *types.Interface:
			return uint(20)
		case *types.Signature:
			return uint(19)
		case *types.Chan:
			return uint(18)
		case *types.Array:
			return uint(17)
		case *types.Basic:
			switch u.Kind() {
			case types.Bool:
				return uint(1)
			case types.Int:
				return uint(2)
			case types.Int8:
				return uint(3)
			case types.Int16:
				return uint(4)
			case types.Int32:
				return uint(5)
			case types.Int64:
				return uint(6)
			case types.Uint:
				return uint(7)
			case types.Uint8:
				return uint(8)
			case types.Uint16:
				return uint(9)
			case types.Uint32:
				return uint(10)
			case types.Uint64:
				return uint(11)
			case types.Uintptr:
				return uint(12)
			case types.Float32:
				return uint(13)
			case types.Float64:
				return uint(14)
			case types.String:
				return uint(24)
			}
		}
		return uint(0)
	case "Name":
		if n, ok := rb.t.(*types.Named); ok {
			return n.Obj().Name()
		}
		return ""
	case "String":
		return rb.t.String()
	}
	unsupported("reflect.Type.%s", name)
	return nil
}
