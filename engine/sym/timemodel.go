package sym

import (
	"fmt"
	"os"
	"strings"
	"go/token"
	"go/types"
	"path"

	"gosmt/smt"
)

// Clock model (DESIGN.md §3.1). A time.Time keeps its three-field shape
// {wall uint64, ext int64, loc *Location} but the fields mean:
//   [0] monotonic reading in ns (0 = none)
//   [1] unix nanoseconds minus zeroUnixNano (so the zero struct is time.Time{})
//   [2] nil for values derived from time.Time{}, the Local sentinel otherwise
// All arithmetic is modulo 2^64 like (Time).UnixNano.

const zeroUnixNano = -6795364578871345152

var (
	ClockLo int64 = 946684800 * 1e9  // 2000-01-01
	ClockHi int64 = 2208988800 * 1e9 // 2040-01-01
)

func hostPathJoin(parts ...string) string { return path.Join(parts...) }

func (in *interp) locSentinel() *value {
	if in.timeLoc == nil {
		var cell value = structure{}
		in.timeLoc = &cell
	}
	return in.timeLoc
}

func (in *interp) mkTime(mono, unixnano value, loc *value) value {
	ext := in.binop(token.SUB, nil, unixnano, int64(zeroUnixNano))
	return structure{mono, ext, loc}
}

func (in *interp) timeParts(t value) (mono, unixnano value, loc *value) {
	s := t.(structure)
	return s[0], in.binop(token.ADD, nil, s[1], int64(zeroUnixNano)), s[2].(*value)
}

func (in *interp) clockNow() value {
	if in.curFrame != nil && !strings.HasPrefix(fnPkgPath(in.curFrame.fn), "github.com/tikv/pd") {
		unsupported("time.Now called from library code %s", in.curFrame.fn)
	}
	if in.inInit > 0 {
		// package initialisers ran before the harness natively: a fixed instant, not a model reading
		return in.mkTime(uint64(1), int64(ClockLo), in.locSentinel())
	}
	if in.fixedClock != nil {
		// the monotonic reading follows the fixed wall clock, so that a harness that moves the fixed
		// clock sees time.Since/Sub advance (same formula in zzvrf/clock_native.go)
		mono := in.conv(types.Typ[types.Uint64], types.Typ[types.Int64], in.binop(token.ADD, nil, in.binop(token.SUB, nil, in.fixedClock, int64(ClockLo)), int64(1)))
		return in.mkTime(mono, in.fixedClock, in.locSentinel())
	}
	k := in.clockN
	in.clockN++
	if os.Getenv("GOSMT_SCHEDDBG") != "" {
		fmt.Fprintf(os.Stderr, "clock %d @ %s\n", k, in.where())
	}
	c := in.ctx
	var wall, mono value
	if in.x.cfg.Pin != nil {
		wall = int64(in.x.cfg.Pin[fmt.Sprintf("clk.wall#%d", k)])
		mono = uint64(in.x.cfg.Pin[fmt.Sprintf("clk.mono#%d", k)])
	} else {
		w := c.Var(fmt.Sprintf("clk.wall#%d", k), 64)
		m := c.Var(fmt.Sprintf("clk.mono#%d", k), 64)
		in.nondets = append(in.nondets, nondet{w.Name, w}, nondet{m.Name, m})
		in.addPC(c.And(
			c.Cmp("bvsle", c.Const(64, uint64(ClockLo)), w),
			c.Cmp("bvsle", w, c.Const(64, uint64(ClockHi))),
			c.Cmp("bvule", c.Const(64, 1), m),
			c.Cmp("bvule", m, c.Const(64, 1<<62)),
		)) // fresh variables: always satisfiable, no solver call needed
		if in.lastMono != nil {
			in.addPC(c.Cmp("bvule", in.lastMono, m))
		}
		in.lastMono = m
		wall = &Sym{T: w, K: types.Int64}
		mono = &Sym{T: m, K: types.Uint64}
	}
	return in.mkTime(mono, wall, in.locSentinel())
}

func (in *interp) bothMono(a, b value) value {
	return in.boolOp("and", in.binop(token.NEQ, types.Typ[types.Uint64], a, uint64(0)), in.binop(token.NEQ, types.Typ[types.Uint64], b, uint64(0)))
}

func (in *interp) timeSub(t, u value) value {
	tm, tn, _ := in.timeParts(t)
	um, un, _ := in.timeParts(u)
	wallDiff := in.binop(token.SUB, nil, tn, un)
	monoDiff := in.conv(types.Typ[types.Int64], types.Typ[types.Uint64], in.binop(token.SUB, nil, tm, um))
	return in.ite(in.bothMono(tm, um), monoDiff, wallDiff)
}

// timeLess returns t < u (strict) following Go: monotonic readings when both
// have one, otherwise the absolute instants.
func (in *interp) timeLess(t, u value) value {
	tm, tn, tl := in.timeParts(t)
	um, un, ul := in.timeParts(u)
	var wallLess value
	switch {
	case tl == nil && ul == nil:
		wallLess = in.binop(token.LSS, nil, t.(structure)[1], u.(structure)[1])
	case tl == nil:
		wallLess = true // year-1 based value precedes any clock/unix value
	case ul == nil:
		wallLess = false
	default:
		wallLess = in.binop(token.LSS, nil, tn, un)
	}
	monoLess := in.binop(token.LSS, nil, tm, um)
	return in.ite(in.bothMono(tm, um), monoLess, wallLess)
}

func init() {
	for k, v := range map[string]intrinsic{
		"time.Now": func(fr *frame, a []value) value { return fr.in.clockNow() },
		"time.Unix": func(fr *frame, a []value) value {
			in := fr.in
			ns := in.binop(token.ADD, nil, in.binop(token.MUL, nil, a[0], int64(1e9)), a[1])
			return in.mkTime(uint64(0), ns, in.locSentinel())
		},
		"time.Since": func(fr *frame, a []value) value { return fr.in.timeSub(fr.in.clockNow(), a[0]) },
		"time.Until": func(fr *frame, a []value) value { return fr.in.timeSub(a[0], fr.in.clockNow()) },
		"(time.Time).UnixNano": func(fr *frame, a []value) value {
			_, n, _ := fr.in.timeParts(a[0])
			return n
		},
		"(time.Time).Unix": func(fr *frame, a []value) value {
			_, n, _ := fr.in.timeParts(a[0])
			return fr.in.binop(token.QUO, nil, n, int64(1e9))
		},
		"(time.Time).Add": func(fr *frame, a []value) value {
			in := fr.in
			s := a[0].(structure)
			mono := in.ite(in.binop(token.NEQ, types.Typ[types.Uint64], s[0], uint64(0)),
				in.binop(token.ADD, nil, s[0], in.conv(types.Typ[types.Uint64], types.Typ[types.Int64], a[1])), uint64(0))
			return structure{mono, in.binop(token.ADD, nil, s[1], a[1]), s[2]}
		},
		"(time.Time).Sub":    func(fr *frame, a []value) value { return fr.in.timeSub(a[0], a[1]) },
		"(time.Time).Before": func(fr *frame, a []value) value { return fr.in.timeLess(a[0], a[1]) },
		"(time.Time).After":  func(fr *frame, a []value) value { return fr.in.timeLess(a[1], a[0]) },
		"(time.Time).Equal": func(fr *frame, a []value) value {
			in := fr.in
			return in.boolOp("and", in.not(in.timeLess(a[0], a[1])), in.not(in.timeLess(a[1], a[0])))
		},
		"(time.Time).IsZero": func(fr *frame, a []value) value {
			s := a[0].(structure)
			if s[2].(*value) != nil {
				return false
			}
			return fr.in.binop(token.EQL, types.Typ[types.Int64], s[1], int64(0))
		},
		"(time.Time).String": func(fr *frame, a []value) value { return "<time>" },
		"time.NewTicker": func(fr *frame, a []value) value {
			var cell value = structure{(*channel)(nil), structure{}}
			_ = cell
			unsupported("time.NewTicker")
			return nil
		},
	} {
		intrinsics[k] = v
	}
}

var _ = smt.Unsat
