package sym

import (
	"fmt"
	"go/token"
	"go/types"
	"reflect"
	"strconv"
	"strings"

	"gosmt/smt"

	"golang.org/x/tools/go/ssa"
)

// Codec pairs (DESIGN.md §3.4): serialisation is modelled as an opaque, injective,
// exactly invertible encoding that carries the original terms.
//
//   strconv.FormatUint/FormatInt/Itoa  <->  ParseUint/ParseInt/Atoi
//   encoding/json.Marshal              <->  json.Unmarshal   (struct-tag aware)
//   proto Marshal (gogo/golang, generated methods) <-> Unmarshal
//   encoding/hex.EncodeToString        <->  hex.DecodeString
//
// An encoded value is a byte string of nominal length 1 whose single element is
// a codec object; converting it between string and []byte keeps the object.

type codecNum struct {
	t    *smt.Term
	k    types.BasicKind
	base int
}

// codecDec20 is the 20-digit zero-padded decimal rendering of a uint64 ("%020d"):
// it is order-isomorphic to the number, so two such elements compare like the numbers.
type codecDec20 struct{ t *smt.Term }

type codecBlob struct {
	kind string // "json", "proto", "hex"
	t    types.Type
	v    value
}

func codecString(obj value) value { return symstr{[]value{obj}} }
func codecBytes(obj value) value  { return []value{obj} }

// codecOf extracts the codec object from an encoded string / []byte.
func codecOf(v value) value {
	switch v := v.(type) {
	case symstr:
		if len(v.b) == 1 {
			switch v.b[0].(type) {
			case codecNum, codecBlob:
				return v.b[0]
			}
		}
	case []value:
		if len(v) == 1 {
			switch v[0].(type) {
			case codecNum, codecBlob:
				return v[0]
			}
		}
	}
	return nil
}

func (in *interp) fmtNum(x value, base int) value {
	if s, ok := x.(*Sym); ok {
		return codecString(codecNum{s.T, s.K, base})
	}
	k := kindOf(x)
	if kindSigned(k) {
		return strconv.FormatInt(asInt64(x), base)
	}
	return strconv.FormatUint(bitsOf(x), base)
}

func (in *interp) parseNum(s value, base int, k types.BasicKind, what string) value {
	if c, ok := codecOf(s).(codecNum); ok {
		if c.base != base {
			unsupported("%s: number was formatted in base %d but is parsed in base %d", what, c.base, base)
		}
		// formatted from kind c.k, parsed as kind k: same width assumed (uint64/int64/int)
		if kindBits(c.k) != kindBits(k) {
			unsupported("%s: width mismatch between format and parse", what)
		}
		return tuple{mkval(c.t, k), iface{}}
	}
	str, ok := s.(string)
	if !ok {
		unsupported("%s on a string with symbolic bytes", what)
	}
	if kindSigned(k) {
		v, err := strconv.ParseInt(str, base, kindBits(k))
		return tuple{fromBits(k, uint64(v)), in.hostErr(err)}
	}
	v, err := strconv.ParseUint(str, base, kindBits(k))
	return tuple{fromBits(k, v), in.hostErr(err)}
}

// ---------------------------------------------------------------------------
// deep copy / deep equality of interpreter values

func deepCopy(v value, memo map[*value]*value) value {
	switch v := v.(type) {
	case structure:
		a := make(structure, len(v))
		for i := range v {
			a[i] = deepCopy(v[i], memo)
		}
		return a
	case array:
		a := make(array, len(v))
		for i := range v {
			a[i] = deepCopy(v[i], memo)
		}
		return a
	case []value:
		if v == nil {
			return v
		}
		a := make([]value, len(v))
		for i := range v {
			a[i] = deepCopy(v[i], memo)
		}
		return a
	case *value:
		if v == nil {
			return v
		}
		if p, ok := memo[v]; ok {
			return p
		}
		cell := new(value)
		memo[v] = cell
		*cell = deepCopy(*v, memo)
		return cell
	case *omap:
		if v == nil {
			return v
		}
		m := newOmap(v.keyT)
		for _, e := range v.entries {
			if e.dead {
				continue
			}
			ne := &mentry{key: deepCopy(e.key, memo), val: deepCopy(e.val, memo)}
			m.entries = append(m.entries, ne)
			m.n++
			if nativeKey(ne.key) {
				m.idx[ne.key] = ne
			} else {
				m.symKeys++
			}
		}
		return m
	case iface:
		return iface{t: v.t, v: deepCopy(v.v, memo)}
	case symstr:
		return symstr{append([]value(nil), v.b...)}
	case tuple:
		a := make(tuple, len(v))
		for i := range v {
			a[i] = deepCopy(v[i], memo)
		}
		return a
	}
	return v
}

// deepEqual mirrors reflect.DeepEqual on interpreter values; the result may be symbolic.
func (in *interp) deepEqual(a, b value, seen map[[2]*value]bool) value {
	and := func(xs ...value) value { return in.boolOp("and", xs...) }
	if a == nil || b == nil {
		// slots of an encoded json tree that were not written (json:"-", unexported, or omitempty
		// with a zero value): two absent slots are equal; an absent slot equals a present one
		// exactly when the present (symbolic) value is the zero value omitempty would have dropped
		if a == nil && b == nil {
			return true
		}
		o := a
		if o == nil {
			o = b
		}
		return in.isZeroValue(o)
	}
	switch a := a.(type) {
	case structure:
		bb, ok := b.(structure)
		if !ok || len(a) != len(bb) {
			return false
		}
		acc := value(true)
		for i := range a {
			e := in.deepEqual(a[i], bb[i], seen)
			if e == false {
				return false
			}
			acc = and(acc, e)
		}
		return acc
	case array:
		bb, ok := b.(array)
		if !ok || len(a) != len(bb) {
			return false
		}
		acc := value(true)
		for i := range a {
			e := in.deepEqual(a[i], bb[i], seen)
			if e == false {
				return false
			}
			acc = and(acc, e)
		}
		return acc
	case []value:
		bb, ok := b.([]value)
		if !ok || len(a) != len(bb) || (a == nil) != (bb == nil) {
			return false
		}
		acc := value(true)
		for i := range a {
			e := in.deepEqual(a[i], bb[i], seen)
			if e == false {
				return false
			}
			acc = and(acc, e)
		}
		return acc
	case *value:
		bb, ok := b.(*value)
		if !ok {
			return false
		}
		if a == nil || bb == nil {
			return a == bb
		}
		if a == bb {
			return true
		}
		key := [2]*value{a, bb}
		if seen[key] {
			return true
		}
		seen[key] = true
		return in.deepEqual(*a, *bb, seen)
	case *omap:
		bb, ok := b.(*omap)
		if !ok {
			return false
		}
		if a == nil || bb == nil {
			return a == bb
		}
		if a.len() != bb.len() {
			return false
		}
		acc := value(true)
		for _, e := range a.entries {
			if e.dead {
				continue
			}
			o := in.mapFind(bb, e.key)
			if o == nil {
				return false
			}
			x := in.deepEqual(e.val, o.val, seen)
			if x == false {
				return false
			}
			acc = and(acc, x)
		}
		return acc
	case iface:
		bb, ok := b.(iface)
		if !ok || !sameType(a.t, bb.t) {
			return false
		}
		if a.t == nil {
			return true
		}
		return in.deepEqual(a.v, bb.v, seen)
	case symstr:
		switch bb := b.(type) {
		case symstr:
			return in.strEq(a, bb)
		case string:
			return in.strEq(a, symstrOf(bb))
		}
		return false
	case string:
		switch bb := b.(type) {
		case string:
			return a == bb
		case symstr:
			return in.strEq(symstrOf(a), bb)
		}
		return false
	case *ssa.Function, *closure, *ssa.Builtin, *hostFunc:
		return reflect.ValueOf(a).IsNil() && b != nil && reflect.ValueOf(b).IsNil()
	case codecNum:
		bb, ok := b.(codecNum)
		if !ok || a.base != bb.base {
			return false
		}
		return mkval(in.ctx.Eq(a.t, bb.t), types.Bool)
	case codecBlob:
		bb, ok := b.(codecBlob)
		if !ok || a.kind != bb.kind {
			return false
		}
		return in.deepEqual(a.v, bb.v, seen)
	case codecDec20:
		bb, ok := b.(codecDec20)
		if !ok {
			return false
		}
		return mkval(in.ctx.Eq(a.t, bb.t), types.Bool)
	case hole:
		return true
	case *channel:
		return a == b
	}
	if kindOf(a) != types.Invalid && kindOf(b) != types.Invalid {
		if kindOf(a) != kindOf(b) {
			return false
		}
		return in.equals(nil, a, b)
	}
	switch a.(type) {
	case float32, float64, complex64, complex128:
		return a == b
	}
	return false
}

// ---------------------------------------------------------------------------
// JSON (struct-tag aware copy)

type jsonField struct {
	idx       int
	omitempty bool
}

// jsonFields lists the struct fields that encoding/json would write.
func jsonFields(st *types.Struct) []jsonField {
	var out []jsonField
	for i := 0; i < st.NumFields(); i++ {
		f := st.Field(i)
		tag := reflect.StructTag(st.Tag(i)).Get("json")
		if tag == "-" {
			continue
		}
		if !f.Exported() && !f.Embedded() {
			continue
		}
		if !f.Exported() && f.Embedded() {
			// unexported embedded struct: its exported fields are promoted; keep it
			if _, ok := f.Type().Underlying().(*types.Struct); !ok {
				continue
			}
		}
		out = append(out, jsonField{idx: i, omitempty: strings.Contains(tag, ",omitempty")})
	}
	return out
}

// isZeroValue: v is the zero value of its type, as a value (bool or symbolic Bool); scalars and strings only.
func (in *interp) isZeroValue(v value) value {
	if in.isZeroConcrete(v) {
		return true
	}
	if s, ok := v.(*Sym); ok {
		if s.K == types.Bool {
			return in.equals(nil, s, false)
		}
		return in.equals(nil, s, fromBits(s.K, 0))
	}
	return false
}

func (in *interp) isZeroConcrete(v value) bool {
	switch v := v.(type) {
	case symstr:
		return len(v.b) == 0
	case bool:
		return !v
	case string:
		return v == ""
	case *value:
		return v == nil
	case []value:
		return len(v) == 0
	case *omap:
		return v == nil || v.len() == 0
	case iface:
		return v.t == nil
	case float32:
		return v == 0
	case float64:
		return v == 0
	}
	if k := kindOf(v); k != types.Invalid && !isSym(v) {
		return bitsOf(v) == 0
	}
	return false
}

// jsonEncode produces the tag-filtered tree of v (type t).
func (in *interp) jsonEncode(t types.Type, v value, memo map[*value]*value) value {
	switch u := t.Underlying().(type) {
	case *types.Struct:
		s, ok := v.(structure)
		if !ok {
			return deepCopy(v, memo)
		}
		out := make(structure, len(s))
		for i := range out {
			out[i] = nil // absent
		}
		for _, f := range jsonFields(u) {
			fv := s[f.idx]
			if f.omitempty && in.isZeroConcrete(fv) {
				continue
			}
			out[f.idx] = in.jsonEncode(u.Field(f.idx).Type(), fv, memo)
		}
		return out
	case *types.Pointer:
		p := v.(*value)
		if p == nil {
			return p
		}
		cell := new(value)
		*cell = in.jsonEncode(u.Elem(), *p, memo)
		return cell
	case *types.Slice:
		s, ok := v.([]value)
		if !ok || s == nil {
			return v
		}
		out := make([]value, len(s))
		for i := range s {
			out[i] = in.jsonEncode(u.Elem(), s[i], memo)
		}
		return out
	case *types.Map:
		m := v.(*omap)
		if m == nil {
			return m
		}
		out := newOmap(m.keyT)
		for _, e := range m.entries {
			if !e.dead {
				in.mapInsert(out, e.key, in.jsonEncode(u.Elem(), e.val, memo))
			}
		}
		return out
	case *types.Interface:
		i := v.(iface)
		if i.t == nil {
			return i
		}
		return iface{t: i.t, v: in.jsonEncode(i.t, i.v, memo)}
	}
	return deepCopy(v, memo)
}

// jsonDecode writes the encoded tree enc (of source type st) into *dst (type dt).
func (in *interp) jsonDecode(dt types.Type, dst *value, enc value) {
	switch u := dt.Underlying().(type) {
	case *types.Struct:
		es, ok := enc.(structure)
		if !ok {
			if p, isPtr := enc.(*value); isPtr && p != nil {
				in.jsonDecode(dt, dst, *p)
				return
			}
			unsupported("json: cannot decode %T into struct %v", enc, dt)
		}
		ds := (*dst).(structure)
		if len(es) != len(ds) {
			unsupported("json: struct shape mismatch decoding into %v", dt)
		}
		omit := map[int]bool{}
		for _, f := range jsonFields(u) {
			omit[f.idx] = f.omitempty
		}
		for i := range es {
			if es[i] == nil {
				continue // absent (json:"-", unexported or omitted): destination untouched
			}
			if s, ok := es[i].(*Sym); ok && omit[i] && !in.isZeroConcrete(ds[i]) {
				// a symbolic omitempty scalar is written only when it is not zero
				ds[i] = in.ite(in.isZeroValue(s), ds[i], s)
				continue
			}
			in.jsonDecode(u.Field(i).Type(), &ds[i], es[i])
		}
	case *types.Pointer:
		ep, isPtr := enc.(*value)
		if isPtr && ep == nil {
			*dst = (*value)(nil)
			return
		}
		cur := (*dst).(*value)
		if cur == nil {
			cell := zero(u.Elem())
			cur = &cell
			*dst = cur
		}
		if isPtr {
			in.jsonDecode(u.Elem(), cur, *ep)
		} else {
			in.jsonDecode(u.Elem(), cur, enc)
		}
	case *types.Slice:
		es, ok := enc.([]value)
		if !ok {
			unsupported("json: cannot decode %T into slice", enc)
		}
		if es == nil {
			*dst = []value(nil)
			return
		}
		out := make([]value, len(es))
		for i := range es {
			out[i] = zero(u.Elem())
			in.jsonDecode(u.Elem(), &out[i], es[i])
		}
		*dst = out
	case *types.Map:
		em, ok := enc.(*omap)
		if !ok {
			unsupported("json: cannot decode %T into map", enc)
		}
		if em == nil {
			return
		}
		m, _ := (*dst).(*omap)
		if m == nil {
			m = newOmap(u.Key())
			*dst = m
		}
		for _, e := range em.entries {
			if e.dead {
				continue
			}
			cell := zero(u.Elem())
			in.jsonDecode(u.Elem(), &cell, e.val)
			in.mapInsert(m, e.key, cell)
		}
	case *types.Interface:
		if ei, ok := enc.(iface); ok {
			*dst = deepCopy(ei, map[*value]*value{})
			return
		}
		unsupported("json: decoding into an interface value")
	default:
		if p, isPtr := enc.(*value); isPtr {
			if p == nil {
				return
			}
			enc = *p
		}
		*dst = deepCopy(enc, map[*value]*value{})
	}
}

func jsonMarshal(fr *frame, a []value) value {
	in := fr.in
	x := a[0].(iface)
	if x.t == nil {
		return tuple{symstrOf("null").b, iface{}}
	}
	enc := in.jsonEncode(x.t, x.v, map[*value]*value{})
	return tuple{codecBytes(codecBlob{"json", x.t, enc}), iface{}}
}

func jsonUnmarshal(fr *frame, a []value) value {
	in := fr.in
	blob, ok := codecOf(a[0]).(codecBlob)
	if !ok || blob.kind != "json" {
		unsupported("json.Unmarshal of bytes that were not produced by json.Marshal in this execution")
	}
	dst := a[1].(iface)
	pt, isPtr := dst.t.Underlying().(*types.Pointer)
	if !isPtr || dst.v.(*value) == nil {
		return in.newError("json: Unmarshal(non-pointer or nil)")
	}
	in.jsonDecode(pt.Elem(), dst.v.(*value), blob.v)
	return iface{}
}

// ---------------------------------------------------------------------------
// protobuf (all fields)

func isProtoPkg(path string) bool {
	return strings.Contains(path, "kvproto/pkg/") || strings.HasSuffix(path, "etcdserverpb") || strings.HasSuffix(path, "mvccpb") || strings.Contains(path, "tipb/")
}

func (in *interp) protoMarshalValue(t types.Type, v value) value {
	return codecBytes(codecBlob{"proto", t, deepCopy(v, map[*value]*value{})})
}

func (in *interp) protoUnmarshalInto(dst *value, data value) value {
	if b, ok := data.([]value); ok && len(b) == 0 {
		return iface{} // empty message: destination keeps zero values
	}
	blob, ok := codecOf(data).(codecBlob)
	if !ok || blob.kind != "proto" {
		unsupported("proto.Unmarshal of bytes that were not produced by a proto Marshal in this execution")
	}
	src := blob.v
	if p, isPtr := src.(*value); isPtr {
		if p == nil {
			return iface{}
		}
		src = *p
	}
	*dst = deepCopy(src, map[*value]*value{})
	return iface{}
}

// protoMethod intercepts generated Marshal/Unmarshal/Size methods.
func (in *interp) protoMethod(fn *ssa.Function, args []value) (value, bool) {
	recv := fn.Signature.Recv()
	if recv == nil || !isProtoPkg(fnPkgPath(fn)) {
		return nil, false
	}
	switch fn.Name() {
	case "Marshal":
		if fn.Signature.Params().Len() == 0 {
			return tuple{in.protoMarshalValue(recv.Type(), args[0]), iface{}}, true
		}
	case "Unmarshal":
		if fn.Signature.Params().Len() == 1 {
			p := args[0].(*value)
			return in.protoUnmarshalInto(p, args[1]), true
		}
	case "Size", "XXX_Size":
		return 1, true
	case "String":
		return "<proto>", true
	}
	return nil, false
}

func init() {
	for k, v := range map[string]intrinsic{
		"encoding/json.Marshal":   jsonMarshal,
		"encoding/json.Unmarshal": jsonUnmarshal,
		"github.com/gogo/protobuf/proto.Marshal": func(fr *frame, a []value) value {
			m := a[0].(iface)
			return tuple{fr.in.protoMarshalValue(m.t, m.v), iface{}}
		},
		"github.com/golang/protobuf/proto.Marshal": func(fr *frame, a []value) value {
			m := a[0].(iface)
			return tuple{fr.in.protoMarshalValue(m.t, m.v), iface{}}
		},
		"github.com/gogo/protobuf/proto.Unmarshal": func(fr *frame, a []value) value {
			return fr.in.protoUnmarshalInto(a[1].(iface).v.(*value), a[0])
		},
		"github.com/golang/protobuf/proto.Unmarshal": func(fr *frame, a []value) value {
			return fr.in.protoUnmarshalInto(a[1].(iface).v.(*value), a[0])
		},
		"github.com/gogo/protobuf/proto.Clone": func(fr *frame, a []value) value {
			m := a[0].(iface)
			return iface{t: m.t, v: deepCopy(m.v, map[*value]*value{})}
		},
		"github.com/golang/protobuf/proto.Clone": func(fr *frame, a []value) value {
			m := a[0].(iface)
			return iface{t: m.t, v: deepCopy(m.v, map[*value]*value{})}
		},
		"encoding/hex.EncodeToString": func(fr *frame, a []value) value {
			b := a[0].([]value)
			conc := make([]byte, len(b))
			for i, x := range b {
				c, ok := x.(uint8)
				if !ok {
					return codecString(codecBlob{"hex", nil, append([]value(nil), b...)})
				}
				conc[i] = c
			}
			return fmt.Sprintf("%x", conc)
		},
		"encoding/hex.DecodeString": func(fr *frame, a []value) value {
			if blob, ok := codecOf(a[0]).(codecBlob); ok && blob.kind == "hex" {
				return tuple{append([]value(nil), blob.v.([]value)...), iface{}}
			}
			s := concStr(a[0], "hex.DecodeString")
			out := make([]value, 0, len(s)/2)
			if len(s)%2 != 0 {
				return tuple{[]value(nil), fr.in.newError("encoding/hex: odd length hex string")}
			}
			for i := 0; i+1 < len(s); i += 2 {
				n, err := strconv.ParseUint(s[i:i+2], 16, 8)
				if err != nil {
					return tuple{[]value(nil), fr.in.newError("encoding/hex: invalid byte")}
				}
				out = append(out, uint8(n))
			}
			return tuple{out, iface{}}
		},
		vpkg + "DeepEqual": func(fr *frame, a []value) value {
			return fr.in.deepEqual(a[0], a[1], map[[2]*value]bool{})
		},
		"reflect.DeepEqual": func(fr *frame, a []value) value {
			return fr.in.truth(fr.in.deepEqual(a[0], a[1], map[[2]*value]bool{}))
		},
	} {
		intrinsics[k] = v
	}
	intrinsics["strconv.Itoa"] = func(fr *frame, a []value) value { return fr.in.fmtNum(a[0], 10) }
	intrinsics["strconv.FormatUint"] = func(fr *frame, a []value) value { return fr.in.fmtNum(a[0], int(asInt64(a[1]))) }
	intrinsics["strconv.FormatInt"] = func(fr *frame, a []value) value { return fr.in.fmtNum(a[0], int(asInt64(a[1]))) }
	intrinsics["strconv.ParseUint"] = func(fr *frame, a []value) value {
		return fr.in.parseNum(a[0], int(asInt64(a[1])), types.Uint64, "strconv.ParseUint")
	}
	intrinsics["strconv.ParseInt"] = func(fr *frame, a []value) value {
		return fr.in.parseNum(a[0], int(asInt64(a[1])), types.Int64, "strconv.ParseInt")
	}
	intrinsics["strconv.Atoi"] = func(fr *frame, a []value) value { return fr.in.parseNum(a[0], 10, types.Int, "strconv.Atoi") }
}

var _ = token.ADD
