package sym

import (
	"fmt"
	"os"
	"go/types"
	"strings"

	"golang.org/x/tools/go/ssa"
)

// Cooperative threads: each runs in its own host goroutine, exactly one holds
// the baton. Switches happen only at yield points.

type killThread struct{}

type thread struct {
	id      int
	wake    chan struct{}
	done    bool
	blocked func() bool // non-nil while blocked; returns true when it may proceed
	started bool
}

type lockState struct {
	writer  bool
	readers int
}

// switchTo hands the baton to t and parks the current thread.
func (in *interp) switchTo(t *thread) {
	me := in.cur
	if t == me {
		return
	}
	in.cur = t
	saved := in.curFrame
	t.wake <- struct{}{}
	<-me.wake
	in.curFrame = saved
	if in.dead {
		panic(killThread{})
	}
}

// schedEligible reports whether the function that called the synchronisation
// primitive belongs to PD (or the harness); only those calls are scheduling
// points, in the executor and in the native replay alike.
func schedEligible(fr *frame) bool {
	if fr == nil || fr.caller == nil {
		return true
	}
	p := fnPkgPath(fr.caller.fn)
	if !strings.HasPrefix(p, "github.com/tikv/pd") {
		return false
	}
	for _, q := range fr.in.x.cfg.NoSchedPkgs {
		if p == q {
			return false
		}
	}
	return true
}

// schedPoint is a scheduling point of the current thread. canContinue (nil =
// always) tells whether the thread may proceed (e.g. the lock is free). Exactly
// one entry is appended to the schedule log: the thread that runs next.
func (in *interp) schedPoint(canContinue func() bool, what string) {
	me := in.cur
	ok := canContinue == nil || canContinue()
	if in.inInit > 0 && ok {
		// package initialisers ran before the harness natively: not a scheduling point
		return
	}
	if len(in.threads) <= 1 {
		if in.inInterferer {
			if !ok {
				// the interfering operation would block here: in a real execution it would
				// simply run later; that placement is explored as a later firing point
				panic(abortPath{"INFEASIBLE", "interferer blocked: " + what})
			}
			return
		}
		if in.interferer != nil && !in.interfereDone {
			if os.Getenv("GOSMT_SCHEDDBG") != "" {
				fmt.Fprintf(os.Stderr, "schedpoint %d %s @ %s\n", in.interferePoints, what, in.where())
			}
			idx := in.interferePoints
			in.interferePoints++
			if in.choose(2) == 1 {
				in.fireInterferer(idx)
				ok = canContinue == nil || canContinue()
			}
		}
		if !ok {
			panic(abortPath{"DEADLOCK", "single thread blocked: " + what})
		}
		return
	}
	var others []*thread
	for _, t := range in.threads {
		if t == me || t.done || !t.started || t.id == 0 {
			continue
		}
		if t.blocked != nil && !t.blocked() {
			continue
		}
		others = append(others, t)
	}
	var options []*thread
	if ok {
		options = append(options, me)
		if in.preempts < in.x.cfg.MaxPreempt {
			options = append(options, others...)
		}
	} else {
		options = others
	}
	if len(options) == 0 {
		panic(abortPath{"DEADLOCK", "all threads blocked: " + what})
	}
	target := options[in.choose(len(options))]
	in.schedLog = append(in.schedLog, target.id)
	if target == me {
		return
	}
	if ok {
		in.preempts++
	} else {
		me.blocked = canContinue
	}
	in.switchTo(target)
	me.blocked = nil
}

// yield is an unconditional scheduling point.
func (in *interp) yield() { in.schedPoint(nil, "yield") }

// block parks the current thread until ready() holds (channels, joins).
func (in *interp) block(ready func() bool, what string) {
	if ready() {
		return
	}
	if len(in.threads) > 1 {
		unsupported("blocking %s inside Par (not replayable natively)", what)
	}
	panic(abortPath{"DEADLOCK", "single thread blocked: " + what})
}

func (in *interp) killThreads() {
	for _, t := range in.threads {
		if t != in.cur && t.started && !t.done {
			t.done = true
			select {
			case t.wake <- struct{}{}:
			default:
			}
		}
	}
}

// par runs the closures as threads and returns when all have finished.
func (in *interp) par(fr *frame, fns []value) {
	if len(in.threads) > 1 {
		unsupported("nested Par")
	}
	main := in.cur
	var panicVal interface{}
	finished := 0
	var kids []*thread
	for i := range fns {
		t := &thread{id: i + 1, wake: make(chan struct{}, 1)}
		kids = append(kids, t)
		in.threads = append(in.threads, t)
	}
	for i, f := range fns {
		t := kids[i]
		f := f
		t.started = true
		go func() {
			<-t.wake
			if in.dead || t.done {
				return
			}
			defer func() {
				p := recover()
				t.done = true
				finished++
				if _, ok := p.(killThread); ok {
					return
				}
				if p != nil {
					if panicVal == nil {
						panicVal = p
					}
					in.dead = true
					in.cur = main
					main.wake <- struct{}{}
					return
				}
				// thread exit: pick the next thread (a scheduling event)
				var next *thread
				func() {
					defer func() {
						if p := recover(); p != nil {
							if panicVal == nil {
								panicVal = p
							}
							in.dead = true
							next = main
						}
					}()
					var rs []*thread
					for _, o := range kids {
						if o.done {
							continue
						}
						if o.blocked != nil && !o.blocked() {
							continue
						}
						rs = append(rs, o)
					}
					if len(rs) == 0 {
						next = main
						if finished != len(kids) {
							panic(abortPath{"DEADLOCK", "Par: remaining threads are blocked forever"})
						}
					} else {
						next = rs[in.choose(len(rs))]
					}
					in.schedLog = append(in.schedLog, next.id)
				}()
				in.cur = next
				next.wake <- struct{}{}
			}()
			in.curFrame = nil
			in.call(nil, fr.callpos, f, nil)
		}()
	}
	first := kids[in.choose(len(kids))]
	in.schedLog = append(in.schedLog, first.id)
	in.cur = first
	saved := in.curFrame
	first.wake <- struct{}{}
	<-main.wake
	in.curFrame = saved
	in.cur = main
	if panicVal != nil {
		in.killThreads()
		panic(panicVal)
	}
	in.threads = in.threads[:1]
	in.preempts = 0
}

// ---------------------------------------------------------------------------
// locks (sync.Mutex / sync.RWMutex), keyed by the address of the lock value

func (in *interp) lockOf(p *value) *lockState {
	l := in.locks[p]
	if l == nil {
		l = &lockState{}
		in.locks[p] = l
	}
	return l
}

func (in *interp) lock(fr *frame, p *value) {
	l := in.lockOf(p)
	free := func() bool { return !l.writer && l.readers == 0 }
	if schedEligible(fr) {
		in.schedPoint(free, "Lock")
	} else if !free() {
		unsupported("contended lock inside library code")
	}
	l.writer = true
}

func (in *interp) unlock(p *value) {
	l := in.lockOf(p)
	if !l.writer {
		panic("fatal error: sync: unlock of unlocked mutex")
	}
	l.writer = false
}

func (in *interp) rlock(fr *frame, p *value) {
	l := in.lockOf(p)
	free := func() bool { return !l.writer }
	if schedEligible(fr) {
		in.schedPoint(free, "RLock")
	} else if !free() {
		unsupported("contended lock inside library code")
	}
	l.readers++
}

func (in *interp) runlock(p *value) {
	l := in.lockOf(p)
	if l.readers <= 0 {
		panic("fatal error: sync: RUnlock of unlocked RWMutex")
	}
	l.readers--
}

// ---------------------------------------------------------------------------
// channels (buffered queues), select, go

func (in *interp) chanSend(ch *channel, v value) {
	if ch == nil {
		in.block(func() bool { return false }, "send on nil channel")
	}
	if ch.closed {
		panic("send on closed channel")
	}
	if ch.cap == 0 {
		unsupported("send on an unbuffered channel (rendez-vous is not modelled)")
	}
	in.block(func() bool { return len(ch.buf) < ch.cap }, "chan send")
	ch.buf = append(ch.buf, v)
}

func (in *interp) chanRecv(ch *channel, elem types.Type, commaOk bool) value {
	if ch == nil {
		in.block(func() bool { return false }, "receive from nil channel")
	}
	in.block(func() bool { return len(ch.buf) > 0 || ch.closed }, "chan receive")
	var v value
	ok := false
	if len(ch.buf) > 0 {
		v = ch.buf[0]
		ch.buf = ch.buf[1:]
		ok = true
	} else {
		v = zero(elem)
	}
	if commaOk {
		return tuple{v, ok}
	}
	return v
}

func (in *interp) selectStmt(fr *frame, instr *ssa.Select) value {
	ready := func() int {
		for i, st := range instr.States {
			ch, _ := fr.get(st.Chan).(*channel)
			if ch == nil {
				continue
			}
			if st.Dir == types.RecvOnly {
				if len(ch.buf) > 0 || ch.closed {
					return i
				}
			} else if ch.cap > 0 && len(ch.buf) < ch.cap && !ch.closed {
				return i
			}
		}
		return -1
	}
	chosen := ready()
	if chosen < 0 && instr.Blocking {
		in.block(func() bool { return ready() >= 0 }, "select")
		chosen = ready()
	}
	recvOk := false
	var recv value
	if chosen >= 0 {
		st := instr.States[chosen]
		ch := fr.get(st.Chan).(*channel)
		if st.Dir == types.RecvOnly {
			if len(ch.buf) > 0 {
				recv = ch.buf[0]
				ch.buf = ch.buf[1:]
				recvOk = true
			}
		} else {
			ch.buf = append(ch.buf, fr.get(st.Send))
		}
	}
	r := tuple{chosen, recvOk}
	for i, st := range instr.States {
		if st.Dir == types.RecvOnly {
			var v value
			if i == chosen && recvOk {
				v = recv
			} else {
				v = zero(st.Chan.Type().Underlying().(*types.Chan).Elem())
			}
			r = append(r, v)
		}
	}
	return r
}

func calleeName(fn value) string {
	switch fn := fn.(type) {
	case *ssa.Function:
		if fn != nil {
			return fn.String()
		}
	case *closure:
		return fn.Fn.String()
	}
	return fmt.Sprintf("%T", fn)
}

func (in *interp) goStmt(fr *frame, instr *ssa.Go, fn value, args []value) {
	name := calleeName(fn)
	for _, s := range in.x.cfg.InlineGo {
		if strings.Contains(name, s) {
			in.call(fr, instr.Pos(), fn, args)
			return
		}
	}
	in.skippedGo = append(in.skippedGo, name)
}

// ---------------------------------------------------------------------------
// Interleave(main, other): main runs on the current thread; other runs to
// completion exactly once, either at one of main's scheduling points (chosen
// nondeterministically, every choice explored) or after main has finished.
// This is the "one preemption, atomic interferer" fragment of Par; it needs no
// extra goroutines and its schedule is a single number (the firing point).

func (in *interp) fireInterferer(idx int) {
	in.interfereDone = true
	in.schedLog = append(in.schedLog, idx)
	in.inInterferer = true
	saved := in.curFrame
	in.call(nil, 0, in.interferer, nil)
	in.curFrame = saved
	in.inInterferer = false
}

func (in *interp) interleave(fr *frame, mainFn, other value) {
	if in.interferer != nil || len(in.threads) > 1 {
		unsupported("nested Interleave / Interleave inside Par")
	}
	in.interferer, in.interfereDone, in.interferePoints = other, false, 0
	in.call(fr, fr.callpos, mainFn, nil)
	if !in.interfereDone {
		in.fireInterferer(-1)
	}
	in.interferer = nil
}
