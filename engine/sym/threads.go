package sym

import (
	"fmt"
	"go/types"
	"strings"

	"golang.org/x/tools/go/ssa"
)

// Cooperative threads: each runs in its own host goroutine, exactly one holds
// the baton. Switches happen only at yield points.

type killThread struct{}

type thread struct {
	id      int
	wake    chan struct{}
	done    bool
	blocked func() bool // non-nil while blocked; returns true when it may proceed
	started bool
}

type lockState struct {
	writer  bool
	readers int
}

func (in *interp) runnable() []*thread {
	var out []*thread
	for _, t := range in.threads {
		if t.done {
			continue
		}
		if t.blocked != nil && !t.blocked() {
			continue
		}
		out = append(out, t)
	}
	return out
}

// switchTo hands the baton to t and parks the current thread.
func (in *interp) switchTo(t *thread) {
	me := in.cur
	if t == me {
		return
	}
	in.cur = t
	in.schedLog = append(in.schedLog, t.id)
	saved := in.curFrame
	t.wake <- struct{}{}
	<-me.wake
	in.curFrame = saved
	if in.dead {
		panic(killThread{})
	}
}

// yield is a scheduling point: the scheduler may preempt the current thread.
func (in *interp) yield() {
	if len(in.threads) <= 1 {
		return
	}
	rs := in.runnable()
	if len(rs) <= 1 {
		return
	}
	if in.preempts >= in.x.cfg.MaxPreempt {
		return
	}
	// alternatives: stay (0) or switch to one of the others
	others := make([]*thread, 0, len(rs))
	for _, t := range rs {
		if t != in.cur {
			others = append(others, t)
		}
	}
	k := in.choose(1 + len(others))
	if k == 0 {
		return
	}
	in.preempts++
	in.switchTo(others[k-1])
}

// block parks the current thread until ready() holds.
func (in *interp) block(ready func() bool, what string) {
	for !ready() {
		me := in.cur
		me.blocked = ready
		rs := in.runnable()
		if len(rs) == 0 {
			panic(abortPath{"DEADLOCK", "all threads blocked: " + what})
		}
		k := in.choose(len(rs))
		in.switchTo(rs[k])
		me.blocked = nil
	}
}

func (in *interp) killThreads() {
	for _, t := range in.threads {
		if t != in.cur && t.started && !t.done {
			t.done = true
			select {
			case t.wake <- struct{}{}:
			default:
			}
		}
	}
}

// par runs the closures as threads and returns when all have finished.
func (in *interp) par(fr *frame, fns []value) {
	if len(in.threads) > 1 {
		unsupported("nested Par")
	}
	main := in.cur
	var panicVal interface{}
	finished := 0
	var kids []*thread
	for i := range fns {
		t := &thread{id: i + 1, wake: make(chan struct{}, 1)}
		kids = append(kids, t)
		in.threads = append(in.threads, t)
	}
	for i, f := range fns {
		t := kids[i]
		f := f
		t.started = true
		go func() {
			<-t.wake
			if in.dead || t.done {
				return
			}
			defer func() {
				p := recover()
				t.done = true
				finished++
				if _, ok := p.(killThread); ok {
					return
				}
				if p != nil && panicVal == nil {
					panicVal = p
					in.dead = true
					// wake main to propagate
					in.cur = main
					main.wake <- struct{}{}
					return
				}
				// pick the next thread to run
				rs := in.runnable()
				var next *thread
				if len(rs) == 0 {
					next = main // main is blocked on join; its ready() now decides
				} else {
					func() {
						defer func() {
							if p := recover(); p != nil {
								if panicVal == nil {
									panicVal = p
								}
								in.dead = true
								next = main
							}
						}()
						next = rs[in.choose(len(rs))]
					}()
				}
				in.cur = next
				in.schedLog = append(in.schedLog, next.id)
				next.wake <- struct{}{}
			}()
			in.curFrame = nil
			in.call(nil, fr.callpos, f, nil)
		}()
	}
	// main blocks until all children are done
	main.blocked = func() bool { return finished == len(kids) }
	rs := in.runnable()
	if len(rs) == 0 {
		panic(abortPath{"DEADLOCK", "Par: nothing runnable"})
	}
	first := rs[in.choose(len(rs))]
	in.cur = first
	in.schedLog = append(in.schedLog, first.id)
	saved := in.curFrame
	first.wake <- struct{}{}
	<-main.wake
	in.curFrame = saved
	in.cur = main
	main.blocked = nil
	if panicVal != nil {
		in.killThreads()
		panic(panicVal)
	}
	if finished != len(kids) {
		panic(abortPath{"DEADLOCK", "Par: children blocked forever"})
	}
	in.threads = in.threads[:1]
}

// ---------------------------------------------------------------------------
// locks (sync.Mutex / sync.RWMutex), keyed by the address of the lock value

func (in *interp) lockOf(p *value) *lockState {
	l := in.locks[p]
	if l == nil {
		l = &lockState{}
		in.locks[p] = l
	}
	return l
}

func (in *interp) lock(p *value) {
	in.yield()
	l := in.lockOf(p)
	in.block(func() bool { return !l.writer && l.readers == 0 }, "Lock")
	l.writer = true
}

func (in *interp) unlock(p *value) {
	l := in.lockOf(p)
	if !l.writer {
		panic("fatal error: sync: unlock of unlocked mutex")
	}
	l.writer = false
}

func (in *interp) rlock(p *value) {
	in.yield()
	l := in.lockOf(p)
	in.block(func() bool { return !l.writer }, "RLock")
	l.readers++
}

func (in *interp) runlock(p *value) {
	l := in.lockOf(p)
	if l.readers <= 0 {
		panic("fatal error: sync: RUnlock of unlocked RWMutex")
	}
	l.readers--
}

// ---------------------------------------------------------------------------
// channels (buffered queues), select, go

func (in *interp) chanSend(ch *channel, v value) {
	if ch == nil {
		in.block(func() bool { return false }, "send on nil channel")
	}
	if ch.closed {
		panic("send on closed channel")
	}
	if ch.cap == 0 {
		unsupported("send on an unbuffered channel (rendez-vous is not modelled)")
	}
	in.block(func() bool { return len(ch.buf) < ch.cap }, "chan send")
	ch.buf = append(ch.buf, v)
}

func (in *interp) chanRecv(ch *channel, elem types.Type, commaOk bool) value {
	if ch == nil {
		in.block(func() bool { return false }, "receive from nil channel")
	}
	in.block(func() bool { return len(ch.buf) > 0 || ch.closed }, "chan receive")
	var v value
	ok := false
	if len(ch.buf) > 0 {
		v = ch.buf[0]
		ch.buf = ch.buf[1:]
		ok = true
	} else {
		v = zero(elem)
	}
	if commaOk {
		return tuple{v, ok}
	}
	return v
}

func (in *interp) selectStmt(fr *frame, instr *ssa.Select) value {
	ready := func() int {
		for i, st := range instr.States {
			ch, _ := fr.get(st.Chan).(*channel)
			if ch == nil {
				continue
			}
			if st.Dir == types.RecvOnly {
				if len(ch.buf) > 0 || ch.closed {
					return i
				}
			} else if ch.cap > 0 && len(ch.buf) < ch.cap && !ch.closed {
				return i
			}
		}
		return -1
	}
	chosen := ready()
	if chosen < 0 && instr.Blocking {
		in.block(func() bool { return ready() >= 0 }, "select")
		chosen = ready()
	}
	recvOk := false
	var recv value
	if chosen >= 0 {
		st := instr.States[chosen]
		ch := fr.get(st.Chan).(*channel)
		if st.Dir == types.RecvOnly {
			if len(ch.buf) > 0 {
				recv = ch.buf[0]
				ch.buf = ch.buf[1:]
				recvOk = true
			}
		} else {
			ch.buf = append(ch.buf, fr.get(st.Send))
		}
	}
	r := tuple{chosen, recvOk}
	for i, st := range instr.States {
		if st.Dir == types.RecvOnly {
			var v value
			if i == chosen && recvOk {
				v = recv
			} else {
				v = zero(st.Chan.Type().Underlying().(*types.Chan).Elem())
			}
			r = append(r, v)
		}
	}
	return r
}

func calleeName(fn value) string {
	switch fn := fn.(type) {
	case *ssa.Function:
		if fn != nil {
			return fn.String()
		}
	case *closure:
		return fn.Fn.String()
	}
	return fmt.Sprintf("%T", fn)
}

func (in *interp) goStmt(fr *frame, instr *ssa.Go, fn value, args []value) {
	name := calleeName(fn)
	for _, s := range in.x.cfg.InlineGo {
		if strings.Contains(name, s) {
			in.call(fr, instr.Pos(), fn, args)
			return
		}
	}
	in.skippedGo = append(in.skippedGo, name)
}
