package smt

import "testing"

func TestBasic(t *testing.T) {
	for _, kind := range []string{"z3", "z3new", "cvc5", "cvc5int"} {
		s, err := NewSolver(kind, 10000)
		if err != nil {
			t.Fatal(err)
		}
		c := NewCtx()
		x := c.Var("x!0", 64)
		y := c.Var("flag", 0)
		s.Push()
		s.Assert(c.Cmp("bvult", x, c.Const(64, 10)))
		s.Assert(c.Eq(c.BV2("bvsdiv", x, c.Const(64, 3)), c.Const(64, 2)))
		s.Assert(y)
		if r := s.Check(); r != Sat {
			t.Fatalf("%s: want sat got %v (%s)", kind, r, s.LastErr)
		}
		m := s.Model(c.Vars)
		if m["x!0"] < 6 || m["x!0"] > 8 || m["flag"] != 1 {
			t.Fatalf("%s: bad model %v", kind, m)
		}
		s.Push()
		s.Assert(c.Cmp("bvult", x, c.Const(64, 6)))
		if r := s.Check(); r != Unsat {
			t.Fatalf("%s: want unsat got %v", kind, r)
		}
		s.Pop()
		s.Pop()
		s.Push()
		s.Assert(c.Eq(x, c.Const(64, 77)))
		if r := s.Check(); r != Sat {
			t.Fatalf("%s: want sat got %v %s", kind, r, s.LastErr)
		}
		s.Pop()
		s.Close()
	}
}
