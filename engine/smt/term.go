// Package smt: terms (bit-vectors and Booleans), constant folding, evaluation
// under a model, and SMT-LIB2 printing for the solver sessions.
package smt

import (
	"fmt"
	"math"
	"strings"
)

// Term is an immutable SMT term. W==0 means Bool, otherwise a bit-vector width.
type Term struct {
	ID   int
	Op   string
	Args []*Term
	W    int
	Val  uint64 // for Op=="const"
	Name string // for Op=="var"
	P1   int    // extract hi / extension amount
	P2   int    // extract lo
}

var nextID int64

// Ctx hash-conses terms of one path execution.
type Ctx struct {
	tab  map[string]*Term
	n    int
	Vars []*Term
}

func NewCtx() *Ctx { return &Ctx{tab: map[string]*Term{}} }

func mask(w int) uint64 {
	if w >= 64 {
		return ^uint64(0)
	}
	return (uint64(1) << uint(w)) - 1
}

func (c *Ctx) mk(op string, w int, p1, p2 int, args ...*Term) *Term {
	var sb strings.Builder
	sb.WriteString(op)
	fmt.Fprintf(&sb, "/%d/%d/%d", w, p1, p2)
	for _, a := range args {
		fmt.Fprintf(&sb, ",%d", a.ID)
	}
	k := sb.String()
	if t, ok := c.tab[k]; ok {
		return t
	}
	c.n++
	t := &Term{ID: c.n, Op: op, Args: args, W: w, P1: p1, P2: p2}
	c.tab[k] = t
	return t
}

func (c *Ctx) Const(w int, v uint64) *Term {
	v &= mask(w)
	k := fmt.Sprintf("const/%d/%d", w, v)
	if t, ok := c.tab[k]; ok {
		return t
	}
	c.n++
	t := &Term{ID: c.n, Op: "const", W: w, Val: v}
	c.tab[k] = t
	return t
}

func (c *Ctx) Bool(b bool) *Term {
	k := "false"
	if b {
		k = "true"
	}
	if t, ok := c.tab[k]; ok {
		return t
	}
	c.n++
	t := &Term{ID: c.n, Op: "const", W: 0}
	if b {
		t.Val = 1
	}
	c.tab[k] = t
	return t
}

// Var returns the variable with the given name (created on first use).
func (c *Ctx) Var(name string, w int) *Term {
	k := "var/" + name
	if t, ok := c.tab[k]; ok {
		if t.W != w {
			panic("smt: variable " + name + " redeclared with different width")
		}
		return t
	}
	c.n++
	t := &Term{ID: c.n, Op: "var", W: w, Name: name}
	c.tab[k] = t
	c.Vars = append(c.Vars, t)
	return t
}

func (t *Term) IsConst() bool { return t.Op == "const" }
func (t *Term) IsTrue() bool  { return t.Op == "const" && t.W == 0 && t.Val == 1 }
func (t *Term) IsFalse() bool { return t.Op == "const" && t.W == 0 && t.Val == 0 }

func sext(v uint64, w int) int64 {
	if w >= 64 {
		return int64(v)
	}
	s := uint(64 - w)
	return int64(v<<s) >> s
}

// evalOp computes op on constant args.
func evalOp(op string, w int, p1, p2 int, a []uint64, aw []int) uint64 {
	b2u := func(b bool) uint64 {
		if b {
			return 1
		}
		return 0
	}
	switch op {
	case "bvadd":
		return (a[0] + a[1]) & mask(w)
	case "bvsub":
		return (a[0] - a[1]) & mask(w)
	case "bvmul":
		return (a[0] * a[1]) & mask(w)
	case "bvneg":
		return (-a[0]) & mask(w)
	case "bvnot":
		return (^a[0]) & mask(w)
	case "bvand":
		return a[0] & a[1]
	case "bvor":
		return a[0] | a[1]
	case "bvxor":
		return a[0] ^ a[1]
	case "bvudiv":
		if a[1] == 0 {
			return mask(w)
		}
		return a[0] / a[1]
	case "bvurem":
		if a[1] == 0 {
			return a[0]
		}
		return a[0] % a[1]
	case "bvsdiv":
		x, y := sext(a[0], w), sext(a[1], w)
		if y == 0 {
			if x >= 0 {
				return mask(w)
			}
			return 1
		}
		if y == -1 {
			return uint64(-x) & mask(w)
		}
		return uint64(x/y) & mask(w)
	case "bvsrem":
		x, y := sext(a[0], w), sext(a[1], w)
		if y == 0 {
			return a[0]
		}
		if y == -1 {
			return 0
		}
		return uint64(x%y) & mask(w)
	case "bvshl":
		if a[1] >= uint64(w) {
			return 0
		}
		return (a[0] << a[1]) & mask(w)
	case "bvlshr":
		if a[1] >= uint64(w) {
			return 0
		}
		return a[0] >> a[1]
	case "bvashr":
		x := sext(a[0], w)
		s := a[1]
		if s >= uint64(w) {
			s = uint64(w - 1)
		}
		return uint64(x>>s) & mask(w)
	case "bvult":
		return b2u(a[0] < a[1])
	case "bvule":
		return b2u(a[0] <= a[1])
	case "bvslt":
		return b2u(sext(a[0], aw[0]) < sext(a[1], aw[1]))
	case "bvsle":
		return b2u(sext(a[0], aw[0]) <= sext(a[1], aw[1]))
	case "fp.lt":
		return b2u(math.Float64frombits(a[0]) < math.Float64frombits(a[1]))
	case "fp.leq":
		return b2u(math.Float64frombits(a[0]) <= math.Float64frombits(a[1]))
	case "fp.eq":
		return b2u(math.Float64frombits(a[0]) == math.Float64frombits(a[1]))
	case "fp.isNaN":
		return b2u(math.IsNaN(math.Float64frombits(a[0])))
	case "=":
		return b2u(a[0] == a[1])
	case "not":
		return b2u(a[0] == 0)
	case "and":
		for _, x := range a {
			if x == 0 {
				return 0
			}
		}
		return 1
	case "or":
		for _, x := range a {
			if x != 0 {
				return 1
			}
		}
		return 0
	case "ite":
		if a[0] != 0 {
			return a[1]
		}
		return a[2]
	case "extract":
		return (a[0] >> uint(p2)) & mask(p1-p2+1)
	case "zext":
		return a[0]
	case "sext":
		return uint64(sext(a[0], aw[0])) & mask(w)
	case "concat":
		return ((a[0] << uint(aw[1])) | a[1]) & mask(w)
	}
	panic("smt: evalOp " + op)
}

func (c *Ctx) app(op string, w int, p1, p2 int, args ...*Term) *Term {
	all := true
	for _, a := range args {
		if !a.IsConst() {
			all = false
			break
		}
	}
	if all {
		vs := make([]uint64, len(args))
		ws := make([]int, len(args))
		for i, a := range args {
			vs[i], ws[i] = a.Val, a.W
		}
		r := evalOp(op, w, p1, p2, vs, ws)
		if w == 0 {
			return c.Bool(r != 0)
		}
		return c.Const(w, r)
	}
	return c.mk(op, w, p1, p2, args...)
}

// BV2 builds a binary bit-vector operation with light simplification.
func (c *Ctx) BV2(op string, x, y *Term) *Term {
	if x.W != y.W {
		panic(fmt.Sprintf("smt: %s width mismatch %d vs %d", op, x.W, y.W))
	}
	switch op {
	case "bvadd", "bvor", "bvxor":
		if x.IsConst() && x.Val == 0 {
			return y
		}
		if y.IsConst() && y.Val == 0 {
			return x
		}
	case "bvsub", "bvshl", "bvlshr", "bvashr":
		if y.IsConst() && y.Val == 0 {
			return x
		}
	case "bvmul":
		if x.IsConst() && x.Val == 1 {
			return y
		}
		if y.IsConst() && y.Val == 1 {
			return x
		}
		if (x.IsConst() && x.Val == 0) || (y.IsConst() && y.Val == 0) {
			return c.Const(x.W, 0)
		}
	case "bvand":
		if (x.IsConst() && x.Val == 0) || (y.IsConst() && y.Val == 0) {
			return c.Const(x.W, 0)
		}
		if x.IsConst() && x.Val == mask(x.W) {
			return y
		}
		if y.IsConst() && y.Val == mask(x.W) {
			return x
		}
	case "bvudiv", "bvsdiv":
		if y.IsConst() && y.Val == 1 {
			return x
		}
	}
	return c.app(op, x.W, 0, 0, x, y)
}

func (c *Ctx) BV1(op string, x *Term) *Term { return c.app(op, x.W, 0, 0, x) }

// Cmp builds a comparison (bvult, bvule, bvslt, bvsle).
func (c *Ctx) Cmp(op string, x, y *Term) *Term {
	if x.W != y.W {
		panic(fmt.Sprintf("smt: %s width mismatch", op))
	}
	if x == y {
		return c.Bool(op == "bvule" || op == "bvsle")
	}
	return c.app(op, 0, 0, 0, x, y)
}

func (c *Ctx) Eq(x, y *Term) *Term {
	if x.W != y.W {
		panic("smt: = width mismatch")
	}
	if x == y {
		return c.Bool(true)
	}
	if x.W == 0 {
		if x.IsConst() {
			if x.Val == 1 {
				return y
			}
			return c.Not(y)
		}
		if y.IsConst() {
			if y.Val == 1 {
				return x
			}
			return c.Not(x)
		}
	}
	return c.app("=", 0, 0, 0, x, y)
}

func (c *Ctx) Not(x *Term) *Term {
	if x.Op == "not" {
		return x.Args[0]
	}
	return c.app("not", 0, 0, 0, x)
}

func (c *Ctx) And(xs ...*Term) *Term {
	var out []*Term
	for _, x := range xs {
		if x.IsFalse() {
			return x
		}
		if x.IsTrue() {
			continue
		}
		out = append(out, x)
	}
	switch len(out) {
	case 0:
		return c.Bool(true)
	case 1:
		return out[0]
	}
	return c.mk("and", 0, 0, 0, out...)
}

func (c *Ctx) Or(xs ...*Term) *Term {
	var out []*Term
	for _, x := range xs {
		if x.IsTrue() {
			return x
		}
		if x.IsFalse() {
			continue
		}
		out = append(out, x)
	}
	switch len(out) {
	case 0:
		return c.Bool(false)
	case 1:
		return out[0]
	}
	return c.mk("or", 0, 0, 0, out...)
}

func (c *Ctx) Ite(b, x, y *Term) *Term {
	if b.IsConst() {
		if b.Val == 1 {
			return x
		}
		return y
	}
	if x == y {
		return x
	}
	if x.W == 0 && x.IsConst() && y.IsConst() {
		if x.Val == 1 && y.Val == 0 {
			return b
		}
		if x.Val == 0 && y.Val == 1 {
			return c.Not(b)
		}
	}
	return c.mk("ite", x.W, 0, 0, b, x, y)
}

func (c *Ctx) Extract(x *Term, hi, lo int) *Term {
	if lo == 0 && hi == x.W-1 {
		return x
	}
	return c.app("extract", hi-lo+1, hi, lo, x)
}

func (c *Ctx) ZExt(x *Term, w int) *Term {
	if w == x.W {
		return x
	}
	return c.app("zext", w, w-x.W, 0, x)
}

func (c *Ctx) SExt(x *Term, w int) *Term {
	if w == x.W {
		return x
	}
	return c.app("sext", w, w-x.W, 0, x)
}

func (c *Ctx) Concat(x, y *Term) *Term { return c.app("concat", x.W+y.W, 0, 0, x, y) }

// Eval evaluates t under the model (variable name -> value); missing variables are 0.
func Eval(t *Term, model map[string]uint64, memo map[int]uint64) uint64 {
	if v, ok := memo[t.ID]; ok {
		return v
	}
	var r uint64
	switch t.Op {
	case "const":
		r = t.Val
	case "var":
		r = model[t.Name] & mask(max(t.W, 1))
	default:
		vs := make([]uint64, len(t.Args))
		ws := make([]int, len(t.Args))
		for i, a := range t.Args {
			vs[i], ws[i] = Eval(a, model, memo), a.W
		}
		r = evalOp(t.Op, t.W, t.P1, t.P2, vs, ws)
	}
	memo[t.ID] = r
	return r
}

func SortOf(w int) string {
	if w == 0 {
		return "Bool"
	}
	return fmt.Sprintf("(_ BitVec %d)", w)
}

func constLit(t *Term) string {
	if t.W == 0 {
		if t.Val == 1 {
			return "true"
		}
		return "false"
	}
	return fmt.Sprintf("(_ bv%d %d)", t.Val, t.W)
}

// Size returns the number of distinct nodes of t.
func Size(t *Term) int {
	seen := map[int]bool{}
	var rec func(*Term)
	rec = func(t *Term) {
		if seen[t.ID] {
			return
		}
		seen[t.ID] = true
		for _, a := range t.Args {
			rec(a)
		}
	}
	rec(t)
	return len(seen)
}

// String prints t as a (possibly large) SMT-LIB tree; for diagnostics only.
func (t *Term) String() string {
	switch t.Op {
	case "const":
		return constLit(t)
	case "var":
		return t.Name
	}
	var sb strings.Builder
	sb.WriteString("(")
	sb.WriteString(headOf(t))
	for _, a := range t.Args {
		sb.WriteString(" ")
		sb.WriteString(a.String())
	}
	sb.WriteString(")")
	return sb.String()
}

func headOf(t *Term) string {
	switch t.Op {
	case "extract":
		return fmt.Sprintf("(_ extract %d %d)", t.P1, t.P2)
	case "zext":
		return fmt.Sprintf("(_ zero_extend %d)", t.P1)
	case "sext":
		return fmt.Sprintf("(_ sign_extend %d)", t.P1)
	}
	return t.Op
}

// EvalConst evaluates a binary bit-vector operation or comparison on constants.
func EvalConst(op string, w int, a, b uint64) uint64 {
	return evalOp(op, w, 0, 0, []uint64{a & mask(w), b & mask(w)}, []int{w, w})
}

// FP builds a float64 comparison over IEEE-754 bit patterns (64-bit vectors):
// op is fp.lt, fp.leq, fp.eq or fp.isNaN.
func (c *Ctx) FP(op string, args ...*Term) *Term {
	for _, a := range args {
		if a.W != 64 {
			panic("smt: FP operand must be a 64-bit pattern")
		}
	}
	return c.app(op, 0, 0, 0, args...)
}
