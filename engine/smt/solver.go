package smt

import (
	"bufio"
	"os"
	"fmt"
	"io"
	"os/exec"
	"strconv"
	"strings"
	"time"
)

type Result int

const (
	Unsat Result = iota
	Sat
	Unknown
)

func (r Result) String() string { return [...]string{"unsat", "sat", "unknown"}[r] }

// Solver is one persistent solver process driven over stdin/stdout.
type Solver struct {
	Kind    string // "z3", "z3new", "cvc5", "cvc5int"
	cmd     *exec.Cmd
	in      io.WriteCloser
	out     *bufio.Reader
	scopes  [][]int      // term ids defined per scope
	defined map[int]bool // term id -> has a definition in the current scopes
	Queries int
	Time    time.Duration
	ModelTime time.Duration
	Models  int
	Errors  int
	LastErr string
	Log     io.Writer // optional transcript
	TimeoutMs int
}

func NewSolver(kind string, timeoutMs int) (*Solver, error) {
	var cmd *exec.Cmd
	switch kind {
	case "z3":
		cmd = exec.Command("z3", "-in", fmt.Sprintf("-t:%d", timeoutMs))
	case "z3new":
		cmd = exec.Command("z3-new", "-in", fmt.Sprintf("-t:%d", timeoutMs))
	case "cvc5":
		cmd = exec.Command("cvc5", "--incremental", "--produce-models", "--lang=smt2", fmt.Sprintf("--tlimit-per=%d", timeoutMs))
	case "cvc5int":
		cmd = exec.Command("cvc5", "--incremental", "--produce-models", "--lang=smt2", "--solve-bv-as-int=sum", fmt.Sprintf("--tlimit-per=%d", timeoutMs))
	default:
		return nil, fmt.Errorf("unknown solver kind %q", kind)
	}
	in, err := cmd.StdinPipe()
	if err != nil {
		return nil, err
	}
	outp, err := cmd.StdoutPipe()
	if err != nil {
		return nil, err
	}
	cmd.Stderr = cmd.Stdout
	if err := cmd.Start(); err != nil {
		return nil, err
	}
	s := &Solver{Kind: kind, cmd: cmd, in: in, out: bufio.NewReaderSize(outp, 1<<20), defined: map[int]bool{}, TimeoutMs: timeoutMs}
	s.scopes = [][]int{nil}
	s.send("(set-option :produce-models true)")
	if strings.HasPrefix(kind, "cvc5") {
		s.send("(set-logic ALL)")
	}
	return s, nil
}

func (s *Solver) Close() {
	if s.cmd != nil {
		s.in.Close()
		s.cmd.Process.Kill()
		s.cmd.Wait()
		s.cmd = nil
	}
}

func (s *Solver) send(line string) {
	if s.Log != nil {
		fmt.Fprintln(s.Log, line)
	}
	io.WriteString(s.in, line)
	io.WriteString(s.in, "\n")
}

func (s *Solver) Push() {
	s.send("(push 1)")
	s.scopes = append(s.scopes, nil)
}

func (s *Solver) Pop() {
	s.send("(pop 1)")
	top := s.scopes[len(s.scopes)-1]
	for _, id := range top {
		delete(s.defined, id)
	}
	s.scopes = s.scopes[:len(s.scopes)-1]
}

// Depth returns the number of open scopes.
func (s *Solver) Depth() int { return len(s.scopes) - 1 }

// ref returns the SMT-LIB text referring to t, emitting definitions as needed.
func (s *Solver) ref(t *Term) string {
	switch t.Op {
	case "const":
		return constLit(t)
	}
	name := "t" + strconv.Itoa(t.ID)
	if t.Op == "var" {
		name = "|" + t.Name + "|"
	}
	if s.defined[t.ID] {
		return name
	}
	if t.Op == "var" {
		s.send(fmt.Sprintf("(declare-const %s %s)", name, SortOf(t.W)))
	} else {
		// iterative post-order to avoid deep recursion on long chains
		parts := make([]string, len(t.Args))
		for i, a := range t.Args {
			parts[i] = s.ref(a)
			if strings.HasPrefix(t.Op, "fp.") {
				parts[i] = "((_ to_fp 11 53) " + parts[i] + ")"
			}
		}
		s.send(fmt.Sprintf("(define-fun %s () %s (%s %s))", name, SortOf(t.W), headOf(t), strings.Join(parts, " ")))
	}
	s.defined[t.ID] = true
	s.scopes[len(s.scopes)-1] = append(s.scopes[len(s.scopes)-1], t.ID)
	return name
}

func (s *Solver) Assert(t *Term) {
	r := s.ref(t)
	s.send("(assert " + r + ")")
}

// Define makes sure t has a definition in the current scope (used before Push).
func (s *Solver) Define(t *Term) { s.ref(t) }

func (s *Solver) readLine() (string, error) {
	line, err := s.out.ReadString('\n')
	return strings.TrimSpace(line), err
}

// Check runs (check-sat). Any "(error" output makes the result Unknown.
func (s *Solver) Check() Result {
	t0 := time.Now()
	s.Queries++
	s.send("(check-sat)")
	s.send("(echo \"<<done>>\")")
	res := Unknown
	got := false
	for {
		line, err := s.readLine()
		if err != nil {
			s.Errors++
			s.LastErr = "solver died: " + err.Error()
			res = Unknown
			break
		}
		if line == "<<done>>" || line == "\"<<done>>\"" {
			break
		}
		if strings.Contains(line, "(error") {
			s.Errors++
			s.LastErr = line
			got = true
			res = Unknown
			continue
		}
		if got {
			continue
		}
		switch line {
		case "sat":
			res, got = Sat, true
		case "unsat":
			res, got = Unsat, true
		case "unknown", "timeout":
			res, got = Unknown, true
		}
	}
	s.Time += time.Since(t0)
	return res
}

// Model returns values of the given variables after a Sat answer (one round trip).
func (s *Solver) Model(vars []*Term) map[string]uint64 {
	t0 := time.Now()
	defer func() { s.ModelTime += time.Since(t0); s.Models++ }()
	m := map[string]uint64{}
	var names []string
	for _, v := range vars {
		if !s.defined[v.ID] {
			continue // never sent to the solver: unconstrained, 0
		}
		names = append(names, "|"+v.Name+"|")
	}
	if len(names) == 0 {
		return m
	}
	s.send("(get-value (" + strings.Join(names, " ") + "))")
	s.send("(echo \"<<done>>\")")
	var sb strings.Builder
	for {
		line, err := s.readLine()
		if err != nil || line == "<<done>>" || line == "\"<<done>>\"" {
			break
		}
		sb.WriteString(line)
		sb.WriteString(" ")
	}
	txt := sb.String()
	if os.Getenv("GOSMT_DBGMODEL") != "" && !strings.Contains(txt, "#") {
		fmt.Fprintf(os.Stderr, "Model: odd get-value answer for %d names: %q\n", len(names), txt)
	}
	// the answer is ((name value) (name value) ...); names may or may not be |quoted|
	i := strings.Index(txt, "(")
	if i < 0 {
		return m
	}
	i++
	n := len(txt)
	for i < n {
		for i < n && txt[i] != '(' {
			if txt[i] == ')' {
				return m
			}
			i++
		}
		if i >= n {
			break
		}
		i++ // past '('
		for i < n && txt[i] == ' ' {
			i++
		}
		var name string
		if i < n && txt[i] == '|' {
			j := strings.IndexByte(txt[i+1:], '|')
			if j < 0 {
				break
			}
			name = txt[i+1 : i+1+j]
			i = i + 1 + j + 1
		} else {
			j := i
			for j < n && txt[j] != ' ' && txt[j] != ')' {
				j++
			}
			name = txt[i:j]
			i = j
		}
		// value: up to the matching ')'
		depth := 0
		j := i
		for j < n {
			if txt[j] == '(' {
				depth++
			} else if txt[j] == ')' {
				if depth == 0 {
					break
				}
				depth--
			}
			j++
		}
		if val, ok := parseScalar(txt[i:j]); ok {
			m[name] = val
		}
		i = j + 1
	}
	return m
}

func parseScalar(txt string) (uint64, bool) {
	if v, ok := parseValue(txt); ok && (strings.Contains(txt, "#") || strings.Contains(txt, "(_ bv")) {
		return v, true
	}
	t := strings.TrimSpace(txt)
	if strings.HasPrefix(t, "true") {
		return 1, true
	}
	if strings.HasPrefix(t, "false") {
		return 0, true
	}
	return 0, false
}

func parseValue(txt string) (uint64, bool) {
	if i := strings.Index(txt, "#b"); i >= 0 {
		j := i + 2
		for j < len(txt) && (txt[j] == '0' || txt[j] == '1') {
			j++
		}
		v, err := strconv.ParseUint(txt[i+2:j], 2, 64)
		return v, err == nil
	}
	if i := strings.Index(txt, "#x"); i >= 0 {
		j := i + 2
		for j < len(txt) && strings.ContainsRune("0123456789abcdefABCDEF", rune(txt[j])) {
			j++
		}
		v, err := strconv.ParseUint(txt[i+2:j], 16, 64)
		return v, err == nil
	}
	if i := strings.Index(txt, "(_ bv"); i >= 0 {
		j := i + 5
		k := j
		for k < len(txt) && txt[k] >= '0' && txt[k] <= '9' {
			k++
		}
		v, err := strconv.ParseUint(txt[j:k], 10, 64)
		return v, err == nil
	}
	// Bool: the text looks like "((|name| true))"
	tt := strings.TrimSpace(txt)
	if strings.HasSuffix(tt, "true))") {
		return 1, true
	}
	if strings.HasSuffix(tt, "false))") {
		return 0, true
	}
	return 0, false
}

// ValueOf returns the value of term t in the current model (after Sat).
func (s *Solver) ValueOf(t *Term) uint64 {
	if t.IsConst() {
		return t.Val
	}
	r := s.ref(t)
	s.send(fmt.Sprintf("(get-value (%s))", r))
	s.send("(echo \"<<done>>\")")
	var sb strings.Builder
	for {
		line, err := s.readLine()
		if err != nil || line == "<<done>>" || line == "\"<<done>>\"" {
			break
		}
		sb.WriteString(line)
		sb.WriteString(" ")
	}
	v, _ := parseValue(sb.String())
	return v
}
