package main

import (
	"bufio"
	"bytes"
	"encoding/json"
	"fmt"
	"os"
	"path/filepath"
	"sort"
	"strconv"
	"strings"
	"time"

	"gosmt/sym"
)

var verifRoot = func() string {
	if r := os.Getenv("VERIF_ROOT"); r != "" {
		return r
	}
	if wd, err := os.Getwd(); err == nil {
		if _, err := os.Stat(filepath.Join(wd, "checks.json")); err == nil {
			return wd
		}
	}
	return "/verif"
}()

type entryCfg struct {
	Name         string         `json:"name"`
	Reach        []string       `json:"reach"`
	Quick        map[string]int `json:"quick"`
	Thorough     map[string]int `json:"thorough"`
	MaxDecisions int            `json:"max_decisions"`
	Preempt      *int           `json:"preempt"`
	Bounds       string         `json:"bounds"`
	ThoroughOnly bool           `json:"thorough_only"`
	InlineGo     []string       `json:"inline_go"`
	AllowPanic   bool           `json:"allow_panic"`
}

type unitCfg struct {
	Pkg     string            `json:"pkg"`
	Harness []string          `json:"harness"`
	Backend string            `json:"backend"`
	Entries []entryCfg        `json:"entries"`
	Stubs   map[string]string `json:"stubs"`
	NoSched []string          `json:"nosched_pkgs"`
	// NativeRetries: re-run native cases that did not match (code ranging over Go maps)
	NativeRetries int `json:"native_retries"`
}

// harnessPath makes a harness spec absolute ("P:" source-patch specs keep their prefix).
func harnessPath(h string) string {
	if strings.HasPrefix(h, "P:") {
		return "P:" + filepath.Join(verifRoot, h[2:])
	}
	return filepath.Join(verifRoot, h)
}

type checkCfg struct {
	Title       string    `json:"title"`
	Assumptions []string  `json:"assumptions"`
	Outside     []string  `json:"outside"`
	Units       []unitCfg `json:"units"`
}

type knownFinding struct {
	Property string `json:"property"`
	Entry    string `json:"entry"`
	Label    string `json:"label"`
	Status   string `json:"status"` // "known" or "fixed"
	Commit   string `json:"commit,omitempty"`
	Text     string `json:"text"`
}

type replayFile struct {
	Property  string            `json:"property"`
	Pkg       string            `json:"pkg"`
	Harness   []string          `json:"harness"`
	Entry     string            `json:"entry"`
	Label     string            `json:"label"`
	Kind      string            `json:"kind"`
	Msg       string            `json:"msg,omitempty"`
	Model     map[string]uint64 `json:"model"`
	Sched     []int             `json:"sched,omitempty"`
	Params    map[string]int    `json:"params,omitempty"`
	NoSched   []string          `json:"nosched,omitempty"`
	Decisions string            `json:"decisions,omitempty"`
	Where     string            `json:"where,omitempty"`
}

func loadChecks() (map[string]checkCfg, error) {
	data, err := os.ReadFile(filepath.Join(verifRoot, "checks.json"))
	if err != nil {
		return nil, err
	}
	var m map[string]checkCfg
	if err := json.Unmarshal(data, &m); err != nil {
		return nil, fmt.Errorf("checks.json: %v", err)
	}
	return m, nil
}

func loadKnown() []knownFinding {
	var out []knownFinding
	f, err := os.Open(filepath.Join(verifRoot, "known_findings.jsonl"))
	if err != nil {
		return nil
	}
	defer f.Close()
	sc := bufio.NewScanner(f)
	sc.Buffer(make([]byte, 1<<20), 1<<24)
	for sc.Scan() {
		line := strings.TrimSpace(sc.Text())
		if line == "" || strings.HasPrefix(line, "#") {
			continue
		}
		var k knownFinding
		if json.Unmarshal([]byte(line), &k) == nil {
			out = append(out, k)
		}
	}
	return out
}

func cmdCheck(args []string) {
	if len(args) >= 2 && args[0] == "--replay" {
		os.Exit(cmdReplay(args[1]))
	}
	if len(args) < 2 {
		fmt.Fprintln(os.Stderr, "usage: gosmt check <property> quick|thorough [entry-filter]")
		os.Exit(2)
	}
	id, tier := args[0], args[1]
	filter := ""
	if len(args) > 2 {
		filter = args[2]
	}
	os.Exit(runCheck(id, tier, filter))
}

type entryReport struct {
	Entry          string         `json:"entry"`
	Pkg            string         `json:"pkg"`
	Bounds         string         `json:"bounds"`
	Params         map[string]int `json:"params"`
	Backend        string         `json:"backend"`
	Paths          int            `json:"paths"`
	Infeasible     int            `json:"infeasible_paths"`
	Decisions      int            `json:"decisions"`
	Obligations    int            `json:"obligations_solver"`
	Discharged     int            `json:"discharged_solver"`
	Trivial        int            `json:"discharged_by_normalisation"`
	Unknown        int            `json:"unknown"`
	UnknownBr      int            `json:"unknown_branch_queries"`
	Queries        int            `json:"queries"`
	SolverS        float64        `json:"solver_s"`
	WallS          float64        `json:"wall_s"`
	Reached        map[string]int `json:"reached"`
	AssertSites    map[string]int `json:"assert_sites"`
	Aborted        map[string]int `json:"aborted,omitempty"`
	AbortMsgs      []string       `json:"abort_msgs,omitempty"`
	Violations     int            `json:"violations"`
	CrossChecked   int            `json:"paths_cross_validated_natively"`
	SkippedGo      []string       `json:"go_statements_not_executed,omitempty"`
	Stubs          []string       `json:"stubs_used,omitempty"`
	ForeignGlobals []string       `json:"foreign_globals_read_uninitialised,omitempty"`
	Elided         []string       `json:"logging_only_branches_elided,omitempty"`
}

func runCheck(id, tier, filter string) int {
	t0 := time.Now()
	checks, err := loadChecks()
	if err != nil {
		fmt.Fprintln(os.Stderr, err)
		return 2
	}
	cc, ok := checks[id]
	if !ok {
		fmt.Fprintf(os.Stderr, "no check configured for %s\n", id)
		return 2
	}
	seed, _ := strconv.Atoi(os.Getenv("VERIF_SEED"))
	known := loadKnown()
	repo := "/repo"
	if r := os.Getenv("VERIF_REPO"); r != "" {
		repo = r
	}

	var reports []entryReport
	funcs := map[string]bool{}
	broken := []string{}
	nViol, nKnown := 0, 0
	var samples []interface{}
	totalPaths, totalDec, totalObl, totalDis, totalCross := 0, 0, 0, 0, 0
	var vlines []string

	for _, u := range cc.Units {
		var harness []string
		for _, h := range u.Harness {
			harness = append(harness, harnessPath(h))
		}
		var wanted []entryCfg
		for _, e := range u.Entries {
			if e.ThoroughOnly && tier != "thorough" {
				continue
			}
			if filter != "" && !strings.Contains(e.Name, filter) {
				continue
			}
			wanted = append(wanted, e)
		}
		if len(wanted) == 0 {
			continue
		}
		ld, err := sym.Load(repo, u.Pkg, harness, filepath.Join(verifRoot, "zzvrf"))
		if err != nil {
			fmt.Printf("HARNESS-BUILD-ERROR property=%s pkg=%s: %v\n", id, u.Pkg, err)
			broken = append(broken, "harness build error in "+u.Pkg)
			continue
		}
		fmt.Printf("[%s] loaded %s in %.1fs\n", id, u.Pkg, ld.LoadTime.Seconds())
		var allEntries []string
		seenEntry := map[string]bool{}
		for _, e := range u.Entries {
			if !seenEntry[e.Name] {
				seenEntry[e.Name] = true
				allEntries = append(allEntries, e.Name)
			}
		}
		var cases []nativeCase
		type caseMeta struct {
			entry  string
			viol   *sym.Violation
			sample *sym.PathSample
			report int
			params map[string]int
		}
		var metas []caseMeta

		for _, e := range wanted {
			cfg := sym.DefaultConfig()
			cfg.Backend = u.Backend
			if cfg.Backend == "" {
				cfg.Backend = "cvc5int"
			}
			if b := os.Getenv("VERIF_BACKEND"); b != "" {
				cfg.Backend = b
			}
			cfg.Workers = 16
			// wall-clock budget per entry: an entry that explodes on a changed tree must not keep the
			// other entries' verdicts (and the exit code) from being reported
			cfg.TimeBudget = 20 * time.Minute
			// (an assertion query that comes back unknown within the per-query limit is asked again in a fresh
			// solver with six times the limit before the check is declared inconclusive: sym/driver.go)
			if tier == "thorough" {
				cfg.TimeoutMs = 180000
				cfg.TimeBudget = 3 * time.Hour
			}
			if e.MaxDecisions > 0 {
				cfg.MaxDecisions = e.MaxDecisions
			}
			if e.Preempt != nil {
				cfg.MaxPreempt = *e.Preempt
			}
			cfg.InlineGo = e.InlineGo
			cfg.Stubs = u.Stubs
			cfg.NoSchedPkgs = u.NoSched
			cfg.Params = e.Quick
			if tier == "thorough" && e.Thorough != nil {
				cfg.Params = map[string]int{}
				for k, v := range e.Quick {
					cfg.Params[k] = v
				}
				for k, v := range e.Thorough {
					cfg.Params[k] = v
				}
			}
			if p, ok := cfg.Params["preempt"]; ok {
				cfg.MaxPreempt = p
			}
			cfg.SampleEvery = 29
			if n, _ := strconv.Atoi(os.Getenv("GOSMT_SAMPLE_EVERY")); n > 0 {
				cfg.SampleEvery = n
			}
			cfg.Seed = seed
			res, err := ld.Explore(e.Name, cfg)
			if err != nil {
				fmt.Printf("HARNESS-BUILD-ERROR property=%s: %v\n", id, err)
				broken = append(broken, err.Error())
				continue
			}
			rep := entryReport{
				Entry: e.Name, Pkg: u.Pkg, Bounds: e.Bounds, Params: cfg.Params, Backend: cfg.Backend,
				Paths: res.Paths, Infeasible: res.Infeasible, Decisions: res.Decisions, Obligations: res.Obligations,
				Discharged: res.Discharged, Trivial: res.Trivial, Unknown: res.Unknown, UnknownBr: res.UnknownBranch,
				Queries: res.Queries, SolverS: res.SolverTime.Seconds(), WallS: res.Wall.Seconds(), Reached: res.Reached,
				AssertSites: res.AssertSites, Aborted: res.Aborted, AbortMsgs: res.AbortMsgs, Violations: len(res.Violations),
				SkippedGo: res.SkippedGo, Stubs: res.StubsUsed, ForeignGlobals: res.ForeignGlobals, Elided: res.Elided,
			}
			fmt.Printf("[%s] %s: paths=%d infeasible=%d obligations=%d(+%d by normalisation) discharged=%d unknown=%d violations=%d queries=%d solver=%.1fs wall=%.1fs\n",
				id, e.Name, res.Paths, res.Infeasible, res.Obligations, res.Trivial, res.Discharged, res.Unknown, len(res.Violations), res.Queries, res.SolverTime.Seconds(), res.Wall.Seconds())
			for _, f := range res.Funcs {
				funcs[f] = true
			}
			// inconclusive conditions: fail closed
			if res.Unknown > 0 {
				broken = append(broken, fmt.Sprintf("%s: %d assertion queries returned unknown", e.Name, res.Unknown))
			}
			for k, n := range res.Aborted {
				if k == "VIOLATED" {
					continue // the violation itself is reported (and replayed) separately
				}
				broken = append(broken, fmt.Sprintf("%s: %d paths aborted with %s (%s)", e.Name, n, k, firstMsg(res.AbortMsgs, k)))
			}
			if res.SolverErrors > 0 {
				broken = append(broken, fmt.Sprintf("%s: solver printed %d error lines (%s)", e.Name, res.SolverErrors, res.LastSolverErr))
			}
			if res.TimeLimitHit {
				broken = append(broken, fmt.Sprintf("%s: time budget of %s exceeded (exploration stopped; nothing is claimed for this entry)", e.Name, cfg.TimeBudget))
			}
			if res.PathLimitHit {
				broken = append(broken, e.Name+": path limit hit")
			}
			if res.Paths == 0 {
				broken = append(broken, e.Name+": vacuous (no feasible path completed)")
			}
			for _, l := range e.Reach {
				if res.Reached[l] == 0 {
					broken = append(broken, fmt.Sprintf("%s: vacuity guard: label %q never reached on a feasible path", e.Name, l))
				}
			}
			if len(res.AssertSites) == 0 {
				broken = append(broken, e.Name+": vacuity guard: no assertion was evaluated")
			}
			ri := len(reports)
			reports = append(reports, rep)
			// counterexamples: one per (entry,label), replayed natively
			seen := map[string]bool{}
			for i := range res.Violations {
				v := &res.Violations[i]
				if v.Kind == "panic" && e.AllowPanic {
					continue
				}
				if seen[v.Label] {
					continue
				}
				seen[v.Label] = true
				cases = append(cases, nativeCase{Entry: e.Name, Model: v.Model, Sched: v.Sched, Params: cfg.Params, NoSched: u.NoSched})
				metas = append(metas, caseMeta{entry: e.Name, viol: v, report: ri, params: cfg.Params})
			}
			nS := 6
			if tier == "thorough" {
				nS = 24
			}
			if n, _ := strconv.Atoi(os.Getenv("GOSMT_NATIVE_SAMPLES")); n > 0 {
				nS = n // debugging aid: cross-validate more of the sampled paths
			}
			for i := range res.Samples {
				if i >= nS {
					break
				}
				s := &res.Samples[i]
				cases = append(cases, nativeCase{Entry: e.Name, Model: s.Model, Sched: s.Sched, Params: cfg.Params, NoSched: u.NoSched})
				metas = append(metas, caseMeta{entry: e.Name, sample: s, report: ri, params: cfg.Params})
			}
			if len(samples) < 12 {
				for l, n := range res.AssertSites {
					samples = append(samples, map[string]interface{}{"entry": e.Name, "obligation": l, "evaluated_on_paths": n, "bounds": e.Bounds, "params": cfg.Params})
					if len(samples) >= 12 {
						break
					}
				}
			}
		}
		if len(cases) > 0 && os.Getenv("VERIF_NO_NATIVE") == "" {
			var log bytes.Buffer
			results, err := runNative(repo, u.Pkg, harness, allEntries, cases, nil, &log)
			fmt.Print(log.String())
			if err != nil {
				fmt.Println("NATIVE-RUN-ERROR:", err)
				broken = append(broken, "native run failed for "+u.Pkg)
			} else {
				// code under test that ranges over Go maps behaves differently from run to run natively: a
				// unit may ask for mismatching cases to be re-run (a reproducing run is a proof; a matching
				// run shows the symbolic path is a real behaviour)
				caseOK := func(m caseMeta, r nativeResult) bool {
					if m.sample != nil {
						return len(r.Failures) == 0 && r.Panic == "" && strings.Join(m.sample.Observed, ";") == strings.Join(r.Observed, ";")
					}
					if m.viol.Kind == "panic" {
						return r.Panic != ""
					}
					for _, f := range r.Failures {
						if f == m.viol.Label {
							return true
						}
					}
					return false
				}
				for try := 0; try < u.NativeRetries; try++ {
					var idx []int
					var again []nativeCase
					for i, r := range results {
						if !caseOK(metas[i], r) {
							idx = append(idx, i)
							again = append(again, cases[i])
						}
					}
					if len(again) == 0 {
						break
					}
					var log2 bytes.Buffer
					res2, err2 := runNative(repo, u.Pkg, harness, allEntries, again, nil, &log2)
					if err2 != nil {
						break
					}
					for k, r := range res2 {
						if caseOK(metas[idx[k]], r) {
							results[idx[k]] = r
						}
					}
				}
				for i, r := range results {
					m := metas[i]
					if m.sample != nil {
						want := strings.Join(m.sample.Observed, ";")
						got := strings.Join(r.Observed, ";")
						if len(r.Failures) > 0 || r.Panic != "" || want != got {
							fmt.Printf("ENGINE-MISMATCH entry=%s decisions=%q: symbolic path observed [%s] failures=[] but native run observed [%s] failures=%v panic=%q\n",
								m.entry, m.sample.Decisions, want, got, r.Failures, r.Panic)
							broken = append(broken, m.entry+": cross-validation mismatch between executor and native run")
							writeReplay(id, u, m.entry, "crosscheck", &sym.Violation{Label: "crosscheck", Model: m.sample.Model, Sched: m.sample.Sched, Decisions: m.sample.Decisions}, m.params)
						} else {
							reports[m.report].CrossChecked++
							totalCross++
						}
						continue
					}
					v := m.viol
					reproduced := false
					if v.Kind == "panic" {
						reproduced = r.Panic != ""
					} else {
						for _, f := range r.Failures {
							if f == v.Label {
								reproduced = true
							}
						}
					}
					path := writeReplay(id, u, m.entry, v.Label, v, m.params)
					if !reproduced {
						fmt.Printf("NOT-REPRODUCED entry=%s label=%s: the solver's counterexample does not fail natively (failures=%v panic=%q); treating as executor/stub defect, replay=%s\n", m.entry, v.Label, r.Failures, r.Panic, path)
						broken = append(broken, fmt.Sprintf("%s/%s: counterexample did not reproduce natively", m.entry, v.Label))
						continue
					}
					if k := matchKnown(known, id, m.entry, v.Label); k != nil {
						fmt.Printf("KNOWN-FINDING: property=%s %s [entry=%s label=%s replay=%s]\n", id, k.Text, m.entry, v.Label, path)
						nKnown++
						continue
					}
					nViol++
					vlines = append(vlines, fmt.Sprintf("VIOLATION property=%s replay=%s", id, path))
					fmt.Printf("counterexample entry=%s label=%s kind=%s msg=%q where=%s\n", m.entry, v.Label, v.Kind, v.Msg, v.Where)
				}
			}
		} else if len(cases) > 0 {
			for _, m := range metas {
				if m.viol != nil {
					path := writeReplay(id, u, m.entry, m.viol.Label, m.viol, m.params)
					fmt.Printf("UNREPLAYED counterexample entry=%s label=%s replay=%s\n", m.entry, m.viol.Label, path)
					broken = append(broken, "counterexample not replayed (VERIF_NO_NATIVE)")
				}
			}
		}
	}

	for _, r := range reports {
		totalPaths += r.Paths
		totalDec += r.Decisions
		totalObl += r.Obligations + r.Trivial
		totalDis += r.Discharged + r.Trivial
	}
	var fl []string
	for f := range funcs {
		if strings.Contains(f, "zzvrf") {
			continue
		}
		fl = append(fl, f)
	}
	sort.Strings(fl)
	if len(samples) == 0 {
		samples = append(samples, "no obligation evaluated")
	}
	ev := map[string]interface{}{
		"property_id": id,
		"tier":        tier,
		"seed":        seed,
		"level":       "model_checking",
		"coverage": map[string]interface{}{
			"states":                        max(totalPaths, 0),
			"transitions":                   totalDec,
			"traces_validated_against_impl": totalCross,
			"samples":                       samples,
			"obligations":                   totalObl,
			"discharged":                    totalDis,
			"explanation":                   "Bounded symbolic execution of the real functions from go/ssa built on this run from /repo's working tree; states = symbolic paths completed (each stands for all values of all symbolic inputs on that path), transitions = solver-decided branch/choice decisions; every assertion evaluation is an SMT query (or is reduced to true by term normalisation); traces_validated = completed paths whose solver model was re-run natively against the real build with identical observations.",
			"entries":                       reports,
			"functions_encoded":             fl,
			"exhaustive":                    len(broken) == 0,
		},
		"assumptions":             append(append([]string{}, cc.Assumptions...), prefixAll("outside the claim: ", cc.Outside)...),
		"wall_s":                  time.Since(t0).Seconds(),
		"violations":              nViol,
		"known_findings_reported": nKnown,
		"inconclusive":            broken,
	}
	os.MkdirAll(filepath.Join(verifRoot, "evidence"), 0o755)
	data, _ := json.MarshalIndent(ev, "", " ")
	evPath := filepath.Join(verifRoot, "evidence", id+".json")
	if filter == "" && totalPaths > 0 && totalDec > 0 && os.Getenv("VERIF_KEEP_EVIDENCE") == "" {
		// (VERIF_KEEP_EVIDENCE: set by tools/seed_check.sh and tools/mutate_check.sh, whose runs are made on a
		// deliberately changed tree and must not replace the evidence of the unchanged tree)
		// (a run that explored nothing - e.g. a harness build error - describes no coverage: the evidence
		// of the last run that did is left in place; its verdict is on stdout and in the exit code)
		os.WriteFile(evPath, data, 0o644)
	}
	for _, l := range vlines {
		fmt.Println(l)
	}
	if nViol > 0 {
		return 1
	}
	if len(broken) > 0 {
		for _, b := range broken {
			fmt.Println("INCONCLUSIVE:", b)
		}
		return 2
	}
	fmt.Printf("[%s] %s: OK paths=%d obligations=%d cross-validated=%d known-findings=%d wall=%.1fs\n", id, tier, totalPaths, totalObl, totalCross, nKnown, time.Since(t0).Seconds())
	return 0
}

func firstMsg(msgs []string, kind string) string {
	for _, m := range msgs {
		if strings.HasPrefix(m, kind) {
			return m
		}
	}
	return ""
}

func prefixAll(p string, xs []string) []string {
	out := make([]string, len(xs))
	for i, x := range xs {
		out[i] = p + x
	}
	return out
}

func matchKnown(known []knownFinding, id, entry, label string) *knownFinding {
	for i := range known {
		k := &known[i]
		if k.Status == "known" && k.Property == id && k.Entry == entry && k.Label == label {
			return k
		}
	}
	return nil
}

func writeReplay(id string, u unitCfg, entry, label string, v *sym.Violation, params map[string]int) string {
	dir := filepath.Join(verifRoot, "replay", id)
	os.MkdirAll(dir, 0o755)
	name := fmt.Sprintf("%s-%s.json", entry, sanitize(label))
	rf := replayFile{NoSched: u.NoSched, Property: id, Pkg: u.Pkg, Harness: u.Harness, Entry: entry, Label: label, Kind: v.Kind, Msg: v.Msg, Model: v.Model, Sched: v.Sched, Params: params, Decisions: v.Decisions, Where: v.Where}
	data, _ := json.MarshalIndent(rf, "", " ")
	p := filepath.Join(dir, name)
	os.WriteFile(p, data, 0o644)
	return p
}

func sanitize(s string) string {
	var sb strings.Builder
	for _, r := range s {
		if (r >= 'a' && r <= 'z') || (r >= 'A' && r <= 'Z') || (r >= '0' && r <= '9') || r == '-' || r == '_' {
			sb.WriteRune(r)
		} else {
			sb.WriteRune('_')
		}
	}
	return sb.String()
}

// cmdReplay runs a stored counterexample natively against /repo's current tree.
func cmdReplay(path string) int {
	data, err := os.ReadFile(path)
	if err != nil {
		fmt.Fprintln(os.Stderr, err)
		return 2
	}
	var rf replayFile
	if err := json.Unmarshal(data, &rf); err != nil {
		fmt.Fprintln(os.Stderr, err)
		return 2
	}
	var harness []string
	for _, h := range rf.Harness {
		harness = append(harness, harnessPath(h))
	}
	checks, _ := loadChecks()
	var entries []string
	for _, u := range checks[rf.Property].Units {
		if u.Pkg == rf.Pkg {
			seenEntry := map[string]bool{}
			for _, e := range u.Entries {
				if !seenEntry[e.Name] {
					seenEntry[e.Name] = true
					entries = append(entries, e.Name)
				}
			}
		}
	}
	if len(entries) == 0 {
		entries = []string{rf.Entry}
	}
	var log bytes.Buffer
	res, err := runNative("/repo", rf.Pkg, harness, entries, []nativeCase{{Entry: rf.Entry, Model: rf.Model, Sched: rf.Sched, Params: rf.Params, NoSched: rf.NoSched}}, nil, &log)
	if err != nil {
		fmt.Println("replay failed to run:", err)
		return 2
	}
	r := res[0]
	fmt.Printf("replay of %s/%s: failures=%v panic=%q observed=%v\n", rf.Entry, rf.Label, r.Failures, r.Panic, r.Observed)
	for _, f := range r.Failures {
		if f == rf.Label {
			fmt.Printf("VIOLATION property=%s replay=%s\n", rf.Property, path)
			return 1
		}
	}
	if rf.Kind == "panic" && r.Panic != "" {
		fmt.Printf("VIOLATION property=%s replay=%s\n", rf.Property, path)
		return 1
	}
	fmt.Println("not reproduced on the current tree")
	return 0
}
