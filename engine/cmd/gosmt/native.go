package main

import (
	"bufio"
	"bytes"
	"encoding/json"
	"fmt"
	"os"
	"os/exec"
	"path/filepath"
	"strings"
	"text/template"
	"time"

	"gosmt/sym"
)

// nativeCase is one concrete execution of a harness entry against the real build.
type nativeCase struct {
	Entry  string            `json:"entry"`
	Model  map[string]uint64 `json:"model"`
	Sched  []int             `json:"sched,omitempty"`
	Params map[string]int    `json:"params,omitempty"`
	NoSched []string         `json:"nosched,omitempty"`
}

type nativeResult struct {
	Index    int      `json:"index"`
	Entry    string   `json:"entry"`
	Failures []string `json:"failures"`
	Observed []string `json:"observed"`
	Reached  []string `json:"reached"`
	Panic    string   `json:"panic"`
}

var runnerTmpl = template.Must(template.New("r").Parse(`package {{.PkgName}}

import (
	"encoding/json"
	"fmt"
	"os"
	"testing"

	v "github.com/tikv/pd/pkg/zzvrf"
)

type zzCase struct {
	Entry  string            ` + "`json:\"entry\"`" + `
	Model  map[string]uint64 ` + "`json:\"model\"`" + `
	Sched  []int             ` + "`json:\"sched\"`" + `
	Params map[string]int    ` + "`json:\"params\"`" + `
	NoSched []string         ` + "`json:\"nosched\"`" + `
}

type zzResult struct {
	Index    int      ` + "`json:\"index\"`" + `
	Entry    string   ` + "`json:\"entry\"`" + `
	Failures []string ` + "`json:\"failures\"`" + `
	Observed []string ` + "`json:\"observed\"`" + `
	Reached  []string ` + "`json:\"reached\"`" + `
	Panic    string   ` + "`json:\"panic\"`" + `
}

var zzEntries = map[string]func(){
{{range .Entries}}	"{{.}}": {{.}},
{{end}}}

func TestVerifNative(t *testing.T) {
	data, err := os.ReadFile(os.Getenv("VERIF_CASES"))
	if err != nil {
		t.Fatal(err)
	}
	var cases []zzCase
	if err := json.Unmarshal(data, &cases); err != nil {
		t.Fatal(err)
	}
	for i, c := range cases {
		v.SetModel(c.Model)
		v.SetParams(c.Params)
		v.SetSched(c.Sched)
		v.SetNoSched(c.NoSched)
		res := zzResult{Index: i, Entry: c.Entry}
		func() {
			defer func() {
				if p := recover(); p != nil {
					if v.IsAssumeFailed(p) {
						return
					}
					res.Panic = fmt.Sprint(p)
				}
			}()
			zzEntries[c.Entry]()
		}()
		res.Failures = v.Summary()
		res.Observed = v.GetObserved()
		res.Reached = v.GetReached()
		out, _ := json.Marshal(res)
		fmt.Printf("VERIFCASE %s\n", out)
	}
}
`))

// runNative compiles the harness into the real package (by overlay) and runs the cases.
func runNative(repo, pkgPath string, harness []string, entries []string, cases []nativeCase, extraOverlay map[string]string, log *bytes.Buffer) ([]nativeResult, error) {
	tmp, err := os.MkdirTemp("", "verif-native-")
	if err != nil {
		return nil, err
	}
	defer os.RemoveAll(tmp)
	rel := strings.TrimPrefix(pkgPath, "github.com/tikv/pd")
	pkgDir := filepath.Join(repo, rel)
	pkgName, err := packageName(pkgDir)
	if err != nil {
		return nil, err
	}
	replace := map[string]string{}
	var habs []string
	for _, h := range harness {
		habs = append(habs, h) // already absolute (possibly with an @pkgdir suffix)
	}
	ovl, err := sym.BuildOverlay(repo, pkgPath, habs, filepath.Join(verifRoot, "zzvrf"), true)
	if err != nil {
		return nil, err
	}
	n := 0
	for target, data := range ovl {
		n++
		f := filepath.Join(tmp, fmt.Sprintf("ov%d_%s", n, filepath.Base(target)))
		if err := os.WriteFile(f, data, 0o644); err != nil {
			return nil, err
		}
		replace[target] = f
	}
	for k, v := range extraOverlay {
		replace[k] = v
	}
	var buf bytes.Buffer
	if err := runnerTmpl.Execute(&buf, map[string]interface{}{"PkgName": pkgName, "Entries": entries}); err != nil {
		return nil, err
	}
	runner := filepath.Join(tmp, "zz_verif_runner_test.go")
	if err := os.WriteFile(runner, buf.Bytes(), 0o644); err != nil {
		return nil, err
	}
	replace[filepath.Join(pkgDir, "zz_verif_runner_test.go")] = runner
	ov, _ := json.Marshal(map[string]interface{}{"Replace": replace})
	ovPath := filepath.Join(tmp, "overlay.json")
	os.WriteFile(ovPath, ov, 0o644)
	casesPath := filepath.Join(tmp, "cases.json")
	cdata, _ := json.Marshal(cases)
	os.WriteFile(casesPath, cdata, 0o644)

	cmd := exec.Command("go", "test", "-v", "-tags", "verifnative", "-vet=off", "-count=1", "-timeout", "20m", "-overlay", ovPath, "-run", "^TestVerifNative$", "./"+strings.TrimPrefix(rel, "/"))
	cmd.Dir = repo
	cmd.Env = append(os.Environ(), "GOFLAGS=-mod=mod", "GOPROXY=off", "GOSUMDB=off", "GOTOOLCHAIN=local", "VERIF_CASES="+casesPath)
	var out bytes.Buffer
	cmd.Stdout = &out
	cmd.Stderr = &out
	t0 := time.Now()
	runErr := cmd.Run()
	if log != nil {
		fmt.Fprintf(log, "native run of %s (%d cases) took %.1fs\n", pkgPath, len(cases), time.Since(t0).Seconds())
	}
	var results []nativeResult
	sc := bufio.NewScanner(&out)
	sc.Buffer(make([]byte, 1<<20), 1<<26)
	var other []string
	for sc.Scan() {
		line := sc.Text()
		if i := strings.Index(line, "VERIFCASE "); i >= 0 {
			var r nativeResult
			if err := json.Unmarshal([]byte(line[i+10:]), &r); err == nil {
				results = append(results, r)
				continue
			}
		}
		if len(other) < 60 {
			other = append(other, line)
		}
	}
	if os.Getenv("VERIF_SCHEDDBG") != "" {
		fmt.Println(strings.Join(other, "\n"))
	}
	if len(results) != len(cases) {
		return results, fmt.Errorf("native run produced %d of %d results (err=%v):\n%s", len(results), len(cases), runErr, strings.Join(other, "\n"))
	}
	return results, nil
}

func packageName(dir string) (string, error) {
	ents, err := os.ReadDir(dir)
	if err != nil {
		return "", err
	}
	for _, e := range ents {
		if strings.HasSuffix(e.Name(), ".go") && !strings.HasSuffix(e.Name(), "_test.go") {
			data, err := os.ReadFile(filepath.Join(dir, e.Name()))
			if err != nil {
				continue
			}
			for _, line := range strings.Split(string(data), "\n") {
				line = strings.TrimSpace(line)
				if strings.HasPrefix(line, "package ") {
					return strings.Fields(line)[1], nil
				}
			}
		}
	}
	return "", fmt.Errorf("no package clause found in %s", dir)
}
