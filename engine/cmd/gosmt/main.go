// Command gosmt symbolically executes harness entry points over /repo's
// current source tree (go/ssa built on every run) and discharges the
// harness assertions with an SMT solver.
package main

import (
	"encoding/json"
	"flag"
	"fmt"
	"os"
	"strconv"
	"strings"

	"gosmt/sym"
)

func main() {
	if len(os.Args) < 2 {
		fmt.Fprintln(os.Stderr, "usage: gosmt run|check ...")
		os.Exit(2)
	}
	switch os.Args[1] {
	case "run":
		cmdRun(os.Args[2:])
	case "check":
		cmdCheck(os.Args[2:])
	default:
		fmt.Fprintln(os.Stderr, "unknown subcommand", os.Args[1])
		os.Exit(2)
	}
}

func cmdRun(args []string) {
	fs := flag.NewFlagSet("run", flag.ExitOnError)
	pkg := fs.String("pkg", "", "import path of the target package")
	harness := fs.String("harness", "", "comma-separated harness files")
	entry := fs.String("entry", "", "comma-separated entry functions")
	backend := fs.String("backend", "z3", "solver back end")
	workers := fs.Int("workers", 8, "parallel workers")
	maxDec := fs.Int("max-decisions", 400, "decisions per path")
	maxPaths := fs.Int("max-paths", 0, "path limit (0 = none)")
	preempt := fs.Int("preempt", 2, "preemption bound")
	timeout := fs.Int("timeout-ms", 30000, "solver timeout per query")
	trace := fs.Bool("trace", false, "trace instructions")
	debug := fs.Bool("debug", false, "debug output")
	repo := fs.String("repo", "/repo", "repository root")
	nosched := fs.String("nosched", "", "comma-separated packages without scheduling points")
	params := fs.String("params", "", "harness params k=v,k=v")
	fs.Parse(args)

	ld, err := sym.Load(*repo, *pkg, strings.Split(*harness, ","), "/verif/zzvrf")
	if err != nil {
		fmt.Fprintln(os.Stderr, "HARNESS-BUILD-ERROR:", err)
		os.Exit(2)
	}
	cfg := sym.DefaultConfig()
	cfg.Backend = *backend
	cfg.Workers = *workers
	cfg.MaxDecisions = *maxDec
	cfg.MaxPaths = *maxPaths
	cfg.MaxPreempt = *preempt
	cfg.TimeoutMs = *timeout
	cfg.Trace = *trace
	cfg.Debug = *debug
	cfg.SampleEvery = 1
	if *nosched != "" {
		cfg.NoSchedPkgs = strings.Split(*nosched, ",")
	}
	cfg.Params = map[string]int{}
	for _, kv := range strings.Split(*params, ",") {
		if i := strings.Index(kv, "="); i > 0 {
			n, _ := strconv.Atoi(kv[i+1:])
			cfg.Params[kv[:i]] = n
		}
	}
	bad := false
	for _, e := range strings.Split(*entry, ",") {
		res, err := ld.Explore(e, cfg)
		if err != nil {
			fmt.Fprintln(os.Stderr, "error:", err)
			os.Exit(2)
		}
		out, _ := json.MarshalIndent(res.Summary(), "", " ")
		fmt.Println(string(out))
		if len(res.Violations) > 0 || res.Unknown > 0 || len(res.Aborted) > 0 {
			bad = true
		}
	}
	if bad {
		os.Exit(1)
	}
}
