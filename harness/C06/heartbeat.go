package cluster

import (
	"github.com/pingcap/kvproto/pkg/metapb"
	"github.com/pingcap/kvproto/pkg/pdpb"
	v "github.com/tikv/pd/pkg/zzvrf"
	"github.com/tikv/pd/server/core"
)

// symbolic (non-forking) range predicates
func hbKeyBeforeEnd(key, end []byte) bool {
	if len(end) == 0 {
		return true
	}
	return v.BytesLess(key, end)
}

func hbOverlap(a, b *core.RegionInfo) bool {
	return v.And(hbKeyBeforeEnd(a.GetStartKey(), b.GetEndKey()), hbKeyBeforeEnd(b.GetStartKey(), a.GetEndKey()))
}

// hbDominates: x is at least as new as y in every component (an unreported term 0 orders with anything).
func hbDominates(x, y *core.RegionInfo) bool {
	return v.And(x.GetRegionEpoch().GetVersion() >= y.GetRegionEpoch().GetVersion(),
		x.GetRegionEpoch().GetConfVer() >= y.GetRegionEpoch().GetConfVer(),
		v.Or(x.GetTerm() == 0, y.GetTerm() == 0, x.GetTerm() >= y.GetTerm()))
}

type hbEpoch struct{ version, confVer, term uint64 }

func hbRegion(id uint64, start, end []byte, tag string) *core.RegionInfo {
	ep := hbEpoch{v.Uint64(tag + "Version"), v.Uint64(tag + "ConfVer"), v.Uint64(tag + "Term")}
	v.Assume(v.And(ep.version < 1<<32, ep.confVer < 1<<32, ep.term < 1<<32))
	leader := &metapb.Peer{Id: id*10 + 1, StoreId: 1}
	return core.RegionFromHeartbeat(&pdpb.RegionHeartbeatRequest{Term: ep.term, Leader: leader,
		Region: &metapb.Region{Id: id, StartKey: start, EndKey: end, Peers: []*metapb.Peer{leader},
			RegionEpoch: &metapb.RegionEpoch{Version: ep.version, ConfVer: ep.confVer}}})
}

func hbKey(name string) []byte {
	if v.Choice(name+"Empty", 2) == 1 {
		return []byte{}
	}
	return v.Bytes(name, 1)
}

// hbWorld: cluster with stores and two adjacent cached regions 1 = ["", m) and 2 = [m, "") (m symbolic),
// both also present in storage, as heartbeats would have left them.
func hbWorld() (*vrfClusterWorld, []*core.RegionInfo) {
	w := vrfNewCluster()
	rc := w.rc
	if err := rc.putStoreLocked(core.NewStoreInfo(&metapb.Store{Id: 1, Address: "a", Version: "4.0.0"})); err != nil {
		v.Assume(false)
	}
	m := v.Bytes("boundary", 1)
	v.Assume(m[0] != 0)
	pre := []*core.RegionInfo{hbRegion(1, []byte{}, m, "r1"), hbRegion(2, m, []byte{}, "r2")}
	for _, r := range pre {
		rc.core.PutRegion(r)
		if err := rc.storage.SaveRegion(r.GetMeta()); err != nil {
			v.Assume(false)
		}
	}
	return w, pre
}

func hbHeartbeat(tag string) *core.RegionInfo {
	id := uint64(1 + v.Choice(tag+"ID", 3))
	start, end := hbKey(tag+"Start"), hbKey(tag+"End")
	if len(end) != 0 {
		v.Assume(v.BytesLess(start, end))
	}
	return hbRegion(id, start, end, tag)
}

// hbCheckFinal: obligations on the served state after one or two heartbeats.
func hbCheckFinal(w *vrfClusterWorld, pre []*core.RegionInfo, sent []*core.RegionInfo, accepted []bool, sequential bool, gone map[uint64]bool, stored []bool) {
	rc := w.rc
	served := rc.core.GetRegions()
	// no two served regions overlap
	for i := range served {
		for j := i + 1; j < len(served); j++ {
			v.Assert("served-regions-do-not-overlap", v.Not(hbOverlap(served[i], served[j])))
		}
	}
	// per id: what is served never regresses from what was served before
	for _, old := range pre {
		now := rc.core.GetRegion(old.GetID())
		if now == nil {
			continue
		}
		// displaced: the id was (or may have been) evicted from the cache by an accepted overlapping region of
		// another id before being admitted again; PD keeps no memory of displaced ids (known finding
		// readmitted-after-displacement). Observed concretely (gone) or implied by an accepted overlapping heartbeat.
		displaced := gone[old.GetID()]
		for i, x := range sent {
			if accepted[i] && x.GetID() != old.GetID() {
				displaced = v.Or(displaced, hbOverlap(x, old))
			}
		}
		regressed := v.Or(now.GetRegionEpoch().GetVersion() < old.GetRegionEpoch().GetVersion(),
			now.GetRegionEpoch().GetConfVer() < old.GetRegionEpoch().GetConfVer(),
			v.And(now.GetTerm() != 0, now.GetTerm() < old.GetTerm()))
		v.Assert("readmitted-after-displacement-not-older", v.Not(v.And(regressed, displaced)))
		v.Assert("version-never-regresses", v.Or(displaced, v.Not(now.GetRegionEpoch().GetVersion() < old.GetRegionEpoch().GetVersion())))
		v.Assert("conf-ver-never-regresses", v.Or(displaced, v.Not(now.GetRegionEpoch().GetConfVer() < old.GetRegionEpoch().GetConfVer())))
		v.Assert("term-never-regresses", v.Or(displaced, now.GetTerm() >= old.GetTerm(), now.GetTerm() == 0))
	}
	// everything served is either an old region or an accepted heartbeat, and is found by key lookup
	for _, r := range served {
		known := false
		for _, o := range pre {
			known = known || o == r
		}
		for i, s := range sent {
			known = known || (s == r && accepted[i])
		}
		v.Assert("served-region-has-a-source", known)
		v.Assert("served-region-found-by-key", rc.core.SearchRegion(r.GetStartKey()) == r)
	}
	// whatever was served or accepted and is no longer served was displaced by an accepted heartbeat that is
	// not older: same id and at least as new in every component, or overlapping and at least the same version
	displacedBy := func(x *core.RegionInfo, self int) bool {
		ok := false
		for i, y := range sent {
			if i == self || !accepted[i] {
				continue
			}
			if y.GetID() == x.GetID() {
				ok = v.Or(ok, hbDominates(y, x))
			} else {
				ok = v.Or(ok, v.And(hbOverlap(y, x), y.GetRegionEpoch().GetVersion() >= x.GetRegionEpoch().GetVersion()))
			}
		}
		return ok
	}
	for _, o := range pre {
		if rc.core.GetRegion(o.GetID()) != o {
			v.Assert("cached-region-displaced-only-by-not-older", displacedBy(o, -1))
		}
	}
	for i, x := range sent {
		for j, y := range sent {
			if i == j || !accepted[i] || !accepted[j] || !stored[i] || rc.core.GetRegion(x.GetID()) == x || rc.core.GetRegion(y.GetID()) != y {
				continue
			}
			// both accepted, x was served when its handling returned and no longer is, y is served
			if y.GetID() == x.GetID() {
				// (a heartbeat that differs from the cached region in term only is accepted without being stored)
				v.Assert("accepted-heartbeat-displaced-only-by-not-older", v.And(y.GetRegionEpoch().GetVersion() >= x.GetRegionEpoch().GetVersion(),
					y.GetRegionEpoch().GetConfVer() >= x.GetRegionEpoch().GetConfVer()))
			} else {
				v.Assert("accepted-heartbeat-displaced-only-by-not-older", v.Or(v.Not(hbOverlap(y, x)), y.GetRegionEpoch().GetVersion() >= x.GetRegionEpoch().GetVersion()))
			}
		}
	}
	if sequential {
		// storage follows the cache: displaced regions are deleted, served regions with changed meta are stored
		for id := uint64(1); id <= 3; id++ {
			var m metapb.Region
			ok, err := rc.storage.LoadRegion(id, &m)
			v.Assert("storage-load-ok", err == nil)
			now := rc.core.GetRegion(id)
			v.Assert("storage-has-exactly-the-served-ids", ok == (now != nil))
			if ok && now != nil {
				v.Assert("stored-version-equals-served", v.And(m.GetRegionEpoch().GetVersion() == now.GetRegionEpoch().GetVersion(), m.GetRegionEpoch().GetConfVer() == now.GetRegionEpoch().GetConfVer()))
			}
		}
	}
}

// VerifC06Heartbeat: one heartbeat (same id as a cached region or a new id, any range,
// any epoch/term) on a cache of two adjacent regions.
func VerifC06Heartbeat() {
	w, pre := hbWorld()
	rc := w.rc
	h := hbHeartbeat("hb")
	// specification of staleness
	stale := false
	for _, o := range pre {
		if o.GetID() == h.GetID() {
			stale = v.Or(stale, h.GetRegionEpoch().GetVersion() < o.GetRegionEpoch().GetVersion(),
				h.GetRegionEpoch().GetConfVer() < o.GetRegionEpoch().GetConfVer(),
				v.And(h.GetTerm() > 0, h.GetTerm() < o.GetTerm()))
		} else {
			stale = v.Or(stale, v.And(hbOverlap(o, h), h.GetRegionEpoch().GetVersion() < o.GetRegionEpoch().GetVersion()))
		}
	}
	before := rc.core.GetRegions()
	err := rc.processRegionHeartbeat(h)
	v.Observe("err", err)
	v.Assert("stale-heartbeat-rejected", v.Or(v.Not(stale), err != nil))
	if err != nil {
		same := len(before) == rc.core.GetRegionCount()
		for _, o := range before {
			same = same && rc.core.GetRegion(o.GetID()) == o && rc.core.SearchRegion(o.GetStartKey()) == o
		}
		v.Assert("rejected-heartbeat-changes-nothing", same)
		for _, o := range pre {
			var m metapb.Region
			ok, _ := rc.storage.LoadRegion(o.GetID(), &m)
			v.Assert("rejected-heartbeat-keeps-storage", v.And(ok, m.GetRegionEpoch().GetVersion() == o.GetRegionEpoch().GetVersion()))
		}
		v.Reach("rejected")
	} else {
		v.Reach("accepted")
	}
	hbCheckFinal(w, pre, []*core.RegionInfo{h}, []bool{err == nil}, true, nil, []bool{rc.core.GetRegion(h.GetID()) == h})
	v.Reach("end")
}

// VerifC06Concurrent: two heartbeats, one interrupted at any scheduling point by the other.
func VerifC06Concurrent() {
	w, pre := hbWorld()
	rc := w.rc
	a := hbHeartbeat("hbA")
	var b *core.RegionInfo
	if v.Param("bmode", 0) == 1 {
		// B reports A's range under A's id or a new id (a duplicate / a racing neighbour)
		id := a.GetID()
		if v.Choice("hbBNew", 2) == 1 {
			id = 3
		}
		b = hbRegion(id, a.GetStartKey(), a.GetEndKey(), "hbB")
	} else {
		b = hbHeartbeat("hbB")
	}
	// states of one region id come from one raft history: version, conf_ver and (reported) term never
	// decrease along it, so any two of them are ordered componentwise
	same := []*core.RegionInfo{a, b}
	for _, o := range pre {
		same = append(same, o)
	}
	for i := range same {
		for j := i + 1; j < len(same); j++ {
			if same[i].GetID() == same[j].GetID() {
				v.Assume(v.Or(hbDominates(same[i], same[j]), hbDominates(same[j], same[i])))
			}
		}
	}
	var ea, eb error
	gone := map[uint64]bool{}
	snapshot := func() {
		for _, o := range pre {
			if rc.core.GetRegion(o.GetID()) == nil {
				gone[o.GetID()] = true
			}
		}
	}
	stored := []bool{false, false}
	v.Interleave(func() { ea = rc.processRegionHeartbeat(a); snapshot(); stored[0] = rc.core.GetRegion(a.GetID()) == a },
		func() { eb = rc.processRegionHeartbeat(b); snapshot(); stored[1] = rc.core.GetRegion(b.GetID()) == b })
	v.Observe("ea", ea)
	v.Observe("eb", eb)
	hbCheckFinal(w, pre, []*core.RegionInfo{a, b}, []bool{ea == nil, eb == nil}, false, gone, stored)
	v.Reach("end")
}
