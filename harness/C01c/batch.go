package pd

import (
	"context"

	v "github.com/tikv/pd/pkg/zzvrf"
)

// VerifC01ClientBatch: the client splits one TSO response (physical, highest differentiated logical, suffix
// width) of a batch of `count` requests into per-request timestamps (processTSORequests' arithmetic and
// finishTSORequest): request i gets exactly the i-th value the server granted, i.e. raw logical
// (highest>>bits)-(count-1-i) with the response's suffix; values are strictly increasing and the last one is
// the response's.
func VerifC01ClientBatch() {
	count := 1 + v.Choice("count", v.Param("maxcount", 4))
	bits := uint32(v.Choice("suffixBits", 4))
	raw := v.Int64("rawHighest")
	suffix := v.Int64("suffix")
	v.Assume(v.And(raw >= int64(count), raw < 1<<18, suffix >= 0, suffix < int64(1)<<bits))
	physical := v.Int64("physical")
	highest := raw<<bits + suffix // what the server answers: differentiateLogical(raw)
	reqs := make([]*tsoRequest, count)
	for i := range reqs {
		reqs[i] = &tsoRequest{done: make(chan error, 1), requestCtx: context.Background(), clientCtx: context.Background()}
	}
	c := &client{}
	first := addLogical(highest, -int64(count)+1, bits)
	c.finishTSORequest(reqs, physical, first, bits, nil)
	for i, r := range reqs {
		want := (raw-int64(count-1-i))<<bits + suffix
		v.Assert("request-gets-the-ith-granted-timestamp", v.And(r.physical == physical, r.logical == want))
		if i > 0 {
			v.Assert("batch-strictly-increasing", reqs[i-1].logical < r.logical)
		}
		v.Assert("request-is-completed-without-error", len(r.done) == 1)
	}
	v.Assert("last-value-is-the-response", reqs[count-1].logical == highest)
	v.Reach("end")
}
