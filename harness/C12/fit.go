package placement

import (
	"github.com/pingcap/kvproto/pkg/metapb"
	v "github.com/tikv/pd/pkg/zzvrf"
	"github.com/tikv/pd/server/core"
)

type vrfStores struct{ stores []*core.StoreInfo }

func (s *vrfStores) GetStores() []*core.StoreInfo { return s.stores }
func (s *vrfStores) GetStore(id uint64) *core.StoreInfo {
	for _, st := range s.stores {
		if st.GetID() == id {
			return st
		}
	}
	return nil
}

var vrfRoles = []PeerRoleType{Voter, Leader, Learner, Follower}
var vrfOps = []LabelConstraintOp{"", In, NotIn, Exists, NotExists}

func vrfRule(idx int, full bool, small bool) *Rule {
	r := &Rule{GroupID: "pd", ID: string(rune('a' + idx)), Index: idx}
	nRoles, nOps := 3, 3
	if full {
		nRoles, nOps = 4, 5
	}
	if small {
		// reduced second rule of the quick tier: voter/learner, count 1, none/in, no location labels
		if v.Choice("role2", 2) == 0 {
			r.Role = Voter
		} else {
			r.Role = Learner
		}
		r.Count = 1
		if v.Choice("constraint2", 2) == 1 {
			r.LabelConstraints = []LabelConstraint{{Key: "zone", Op: In, Values: []string{string([]byte{v.Byte("constraintValue")})}}}
		}
		return r
	}
	r.Role = vrfRoles[v.Choice("role", nRoles)]
	r.Count = 1 + v.Choice("count", 2)
	if op := vrfOps[v.Choice("constraintOp", nOps)]; op != "" {
		c := LabelConstraint{Key: "zone", Op: op}
		if op == In || op == NotIn {
			c.Values = []string{string([]byte{v.Byte("constraintValue")})}
		}
		r.LabelConstraints = []LabelConstraint{c}
	}
	if v.Choice("locationLabels", 2) == 1 {
		r.LocationLabels = []string{"zone"}
	}
	return r
}

// VerifC12Fit: FitRegion on n peers (distinct stores, each store with a symbolic
// one-byte zone label or none) against 1..2 rules, compared with a brute-force
// oracle over all assignments peer -> {rule_0, rule_1, orphan}.
func VerifC12Fit() {
	n := v.Param("peers", 3)
	full := v.Param("full", 0) == 1
	ss := &vrfStores{}
	var peers []*metapb.Peer
	zones := make([][]byte, n)
	for i := 0; i < n; i++ {
		st := &metapb.Store{Id: uint64(i + 1)}
		if i >= v.Param("unlabelled", n) || v.Choice("hasZone", 2) == 1 {
			b := v.Byte("zone")
			v.Assume(v.And(b >= 'a', b <= 'c'))
			zones[i] = []byte{b}
			st.Labels = []*metapb.StoreLabel{{Key: "zone", Value: string(zones[i])}}
		}
		ss.stores = append(ss.stores, core.NewStoreInfo(st))
		role := metapb.PeerRole_Voter
		if v.Choice("learner", 2) == 1 {
			role = metapb.PeerRole_Learner
		}
		peers = append(peers, &metapb.Peer{Id: uint64(10 + i), StoreId: uint64(i + 1), Role: role})
	}
	// leader: one of the voters (if any)
	var voters []*metapb.Peer
	for _, p := range peers {
		if p.Role == metapb.PeerRole_Voter {
			voters = append(voters, p)
		}
	}
	var leader *metapb.Peer
	if len(voters) > 0 {
		leader = voters[v.Choice("leader", len(voters))]
	}
	region := core.NewRegionInfo(&metapb.Region{Id: 1, Peers: peers}, leader)
	nRules := 1 + v.Choice("rules", v.Param("maxRules", 2))
	var rules []*Rule
	for i := 0; i < nRules; i++ {
		rules = append(rules, vrfRule(i, full && i == 0, v.Param("smallSecond", 0) == 1 && i == 1))
	}

	fit := FitRegion(ss, region, rules) // real code

	// --- the returned fit is a valid assignment
	v.Assert("one-fit-per-rule", len(fit.RuleFits) == len(rules))
	place := map[uint64]int{} // peer id -> rule index, -1 orphan
	count := 0
	for ri, rf := range fit.RuleFits {
		if rf == nil {
			continue
		}
		v.Assert("rule-identity", rf.Rule == rules[ri])
		v.Assert("not-more-than-count", len(rf.Peers) <= rules[ri].Count)
		mismatch := 0
		for _, p := range rf.Peers {
			_, dup := place[p.GetId()]
			v.Assert("peer-in-one-place", !dup)
			place[p.GetId()] = ri
			count++
			fp := vrfFitPeer(ss, region, p)
			v.Assert("constraints-satisfied", MatchLabelConstraints(fp.store, rules[ri].LabelConstraints))
			v.Assert("role-convertible", fp.matchRoleLoose(rules[ri].Role))
			if !fp.matchRoleStrict(rules[ri].Role) {
				mismatch++
				found := false
				for _, q := range rf.PeersWithDifferentRole {
					if q.GetId() == p.GetId() {
						found = true
					}
				}
				v.Assert("role-mismatch-listed", found)
			}
		}
		v.Assert("role-mismatch-list-exact", len(rf.PeersWithDifferentRole) == mismatch)
	}
	for _, p := range fit.OrphanPeers {
		_, dup := place[p.GetId()]
		v.Assert("orphan-in-one-place", !dup)
		place[p.GetId()] = -1
		count++
	}
	v.Assert("every-peer-placed", count == n && len(place) == n)

	// --- satisfied iff every rule full with matching roles and no orphan
	sat := len(fit.OrphanPeers) == 0
	for ri, rf := range fit.RuleFits {
		if rf == nil || len(rf.Peers) != rules[ri].Count || len(rf.PeersWithDifferentRole) != 0 {
			sat = false
		}
	}
	v.Assert("satisfied-iff-spec", fit.IsSatisfied() == sat)

	// --- no valid assignment is better (brute force over all assignments)
	assign := make([]int, n)
	var rec func(i int)
	rec = func(i int) {
		if i == n {
			cand := vrfCandidate(ss, region, rules, peers, assign)
			if cand != nil {
				v.Assert("no-better-assignment", vrfSpecCompare(ss, region, cand, fit) <= 0)
			}
			return
		}
		for a := -1; a < len(rules); a++ {
			assign[i] = a
			rec(i + 1)
		}
	}
	rec(0)
	v.Reach("end")
}

func vrfFitPeer(ss *vrfStores, region *core.RegionInfo, p *metapb.Peer) *fitPeer {
	return &fitPeer{Peer: p, store: ss.GetStore(p.GetStoreId()), isLeader: region.GetLeader().GetId() == p.GetId()}
}

// vrfCandidate builds the RegionFit of an assignment if it is valid: constraints and
// loose roles hold, no rule holds more than its count, and a rule is not left
// short while a peer that could still go there is an orphan (the documented
// order prefers more peers per rule, so such assignments are dominated anyway).
func vrfCandidate(ss *vrfStores, region *core.RegionInfo, rules []*Rule, peers []*metapb.Peer, assign []int) *RegionFit {
	rf := &RegionFit{RuleFits: make([]*RuleFit, len(rules))}
	sel := make([][]*fitPeer, len(rules))
	for i, p := range peers {
		a := assign[i]
		if a < 0 {
			rf.OrphanPeers = append(rf.OrphanPeers, p)
			continue
		}
		fp := vrfFitPeer(ss, region, p)
		if !v.ConcreteBool(MatchLabelConstraints(fp.store, rules[a].LabelConstraints)) || !fp.matchRoleLoose(rules[a].Role) {
			return nil
		}
		sel[a] = append(sel[a], fp)
	}
	for ri := range rules {
		if len(sel[ri]) > rules[ri].Count {
			return nil
		}
		rf.RuleFits[ri] = newRuleFit(rules[ri], sel[ri])
	}
	return rf
}

// vrfSpecCompare is the documented order, written independently of compareRuleFit:
// rule by rule more peers, then fewer role mismatches, then higher isolation
// (number of peer pairs in different zones, weighted as one location level);
// finally fewer orphans.
func vrfSpecCompare(ss *vrfStores, region *core.RegionInfo, a, b *RegionFit) int {
	for i := range a.RuleFits {
		ra, rb := a.RuleFits[i], b.RuleFits[i]
		if ra == nil || rb == nil {
			if ra == rb {
				continue
			}
			if ra == nil {
				return -1
			}
			return 1
		}
		if len(ra.Peers) != len(rb.Peers) {
			if len(ra.Peers) > len(rb.Peers) {
				return 1
			}
			return -1
		}
		ma, mb := vrfMismatches(ss, region, ra), vrfMismatches(ss, region, rb)
		if ma != mb {
			if ma < mb {
				return 1
			}
			return -1
		}
		ia, ib := vrfIsolation(ss, ra), vrfIsolation(ss, rb)
		if ia != ib {
			if ia > ib {
				return 1
			}
			return -1
		}
	}
	if len(a.OrphanPeers) != len(b.OrphanPeers) {
		if len(a.OrphanPeers) < len(b.OrphanPeers) {
			return 1
		}
		return -1
	}
	return 0
}

func vrfMismatches(ss *vrfStores, region *core.RegionInfo, rf *RuleFit) int {
	n := 0
	for _, p := range rf.Peers {
		isLeader := region.GetLeader().GetId() == p.GetId()
		learner := p.Role == metapb.PeerRole_Learner
		ok := false
		switch rf.Rule.Role {
		case Voter:
			ok = !learner
		case Leader:
			ok = isLeader
		case Follower:
			ok = !learner && !isLeader
		case Learner:
			ok = learner
		}
		if !ok {
			n++
		}
	}
	return n
}

func vrfIsolation(ss *vrfStores, rf *RuleFit) int {
	if len(rf.Rule.LocationLabels) == 0 {
		return 0
	}
	n := 0
	for i, p := range rf.Peers {
		for _, q := range rf.Peers[i+1:] {
			z1, z2 := ss.GetStore(p.StoreId).GetLabelValue("zone"), ss.GetStore(q.StoreId).GetLabelValue("zone")
			if z1 != "" && z2 != "" && v.ConcreteBool(z1 != z2) {
				n++
			}
		}
	}
	return n
}
