package core

import (
	"github.com/pingcap/kvproto/pkg/metapb"
	v "github.com/tikv/pd/pkg/zzvrf"
	"github.com/tikv/pd/server/kv"
)

var vrfSizes = []int{0, 1, 2, 99, 100, 101, 199, 200, 201}

// vrfIDs: n strictly increasing symbolic 64-bit ids (any values, including the top of the range).
func vrfIDs(n int) []uint64 {
	ids := make([]uint64, n)
	if v.Param("dense", 0) == 1 {
		// consecutive concrete ids, as the id allocator hands them out: a fully concrete run that stays
		// decidable when a change breaks the successor structure the symbolic runs rely on (e.g. id+2)
		for i := range ids {
			ids[i] = 1000 + uint64(i)
		}
		return ids
	}
	for i := range ids {
		ids[i] = v.Uint64("id")
		if i > 0 {
			v.Assume(ids[i-1] < ids[i])
		}
	}
	return ids
}

// VerifC17LoadStores: n stores with arbitrary increasing ids are saved (some with
// weights) and loaded back page by page: each exactly once, in order.
func VerifC17LoadStores() {
	n := vrfSizes[v.Choice("n", v.Param("sizes", 6))]
	ids := vrfIDs(n)
	if n > 0 && v.Param("excludeTop", 1) == 1 {
		v.Assume(ids[n-1] < ^uint64(0)) // the id 2^64-1 is examined separately (VerifC17TopID)
	}
	s := NewStorage(kv.NewMemoryKV())
	for i, id := range ids {
		if err := s.SaveStore(&metapb.Store{Id: id, Address: "a"}); err != nil {
			v.Assume(false)
		}
		if i == 0 {
			if err := s.SaveStoreWeight(id, 2, 3); err != nil {
				v.Assume(false)
			}
		}
	}
	var got []*StoreInfo
	err := s.LoadStores(func(st *StoreInfo) { got = append(got, st) })
	v.Assert("load-ok", err == nil)
	v.Assert("every-store-loaded-exactly-once-count", len(got) == n)
	if len(got) == n {
		for i := range ids {
			v.Assert("every-store-loaded-exactly-once", got[i].GetID() == ids[i])
		}
		if n > 0 {
			v.Assert("weights-loaded", got[0].GetLeaderWeight() == 2 && got[0].GetRegionWeight() == 3)
		}
	}
	v.Reach("end")
}

// VerifC17TopID: a store whose id is 2^64-1.
func VerifC17TopID() {
	s := NewStorage(kv.NewMemoryKV())
	lo := v.Uint64("id")
	v.Assume(lo < ^uint64(0))
	for _, id := range []uint64{lo, ^uint64(0)} {
		if err := s.SaveStore(&metapb.Store{Id: id}); err != nil {
			v.Assume(false)
		}
	}
	n := 0
	top := false
	err := s.LoadStores(func(st *StoreInfo) {
		n++
		if st.GetID() == ^uint64(0) {
			top = true
		}
	})
	v.Assert("load-ok", err == nil)
	v.Assert("store-with-top-id-is-loaded", top && n == 2)
	v.Reach("end")
}

// VerifC17LoadRegions: n regions (arbitrary increasing ids, disjoint ranges) are saved
// and loaded through CheckAndPutRegion, with the first `errs` range reads failing so
// that the adaptive page size shrinks from 10000 to 156; n sits around that boundary.
func VerifC17LoadRegions() {
	sizes := []int{0, 1, 155, 156, 157}
	n := sizes[v.Choice("n", v.Param("sizes", 5))]
	ids := vrfIDs(n)
	if n > 0 {
		v.Assume(ids[n-1] < ^uint64(0))
	}
	fkv := &kv.VerifFaultKV{Base: kv.NewMemoryKV()}
	s := NewStorage(fkv)
	for i, id := range ids {
		start, end := []byte{byte(i >> 8), byte(i)}, []byte{byte((i + 1) >> 8), byte(i + 1)}
		if i == 0 {
			start = nil
		}
		if i == n-1 {
			end = nil
		}
		if err := s.SaveRegion(&metapb.Region{Id: id, StartKey: start, EndKey: end, RegionEpoch: &metapb.RegionEpoch{Version: 1, ConfVer: 1}}); err != nil {
			v.Assume(false)
		}
	}
	fails := 6 // 10000 -> 5000 -> 2500 -> 1250 -> 625 -> 312 -> 156
	if v.Choice("noReadErrors", 2) == 1 {
		fails = 0
	}
	k := 0
	fkv.FailRead = func(op, key string) bool { k++; return op == "loadrange" && k <= fails }
	bc := NewBasicCluster()
	count := 0
	err := s.LoadRegions(func(r *RegionInfo) []*RegionInfo {
		count++
		return bc.CheckAndPutRegion(r)
	})
	v.Assert("load-ok", err == nil)
	v.Assert("every-region-loaded-exactly-once", count == n)
	v.Assert("cache-holds-every-region", bc.GetRegionCount() == n)
	for _, id := range ids {
		v.Assert("region-in-cache", bc.GetRegion(id) != nil)
	}
	v.Reach("end")
}

// VerifC17Prune: leftovers in storage (stale versions, overlapped ranges) are removed
// by the load, so that storage and cache describe the same non-overlapping set.
func VerifC17Prune() {
	s := NewStorage(kv.NewMemoryKV())
	ids := vrfIDs(3)
	v.Assume(ids[2] < ^uint64(0))
	// three records over the key space ["", +inf): which of them overlap and which is newer is symbolic
	type rec struct {
		start, end []byte
		ver        uint64
	}
	layouts := [][]rec{
		{{nil, []byte("m"), 0}, {[]byte("m"), nil, 0}, {nil, nil, 0}},                 // a split pair plus a merged / pre-split record
		{{nil, []byte("g"), 0}, {[]byte("c"), []byte("p"), 0}, {[]byte("p"), nil, 0}}, // a middle record overlapping its left neighbour
		{{nil, []byte("m"), 0}, {[]byte("m"), nil, 0}, {[]byte("m"), []byte("t"), 0}}, // a leftover inside the right one
	}
	lay := layouts[v.Choice("layout", len(layouts))]
	perm := [][]int{{0, 1, 2}, {0, 2, 1}, {1, 0, 2}, {1, 2, 0}, {2, 0, 1}, {2, 1, 0}}[v.Choice("idOrder", 6)]
	for i := range lay {
		lay[i].ver = v.Uint64("version")
		v.Assume(lay[i].ver < 1000)
		if err := s.SaveRegion(&metapb.Region{Id: ids[perm[i]], StartKey: lay[i].start, EndKey: lay[i].end,
			RegionEpoch: &metapb.RegionEpoch{Version: lay[i].ver, ConfVer: 1}}); err != nil {
			v.Assume(false)
		}
	}
	bc := NewBasicCluster()
	err := s.LoadRegions(bc.CheckAndPutRegion)
	v.Assert("load-ok", err == nil)
	// storage and cache describe the same set afterwards
	stored := 0
	for _, id := range ids {
		var m metapb.Region
		ok, lerr := s.LoadRegion(id, &m)
		v.Assert("load-region-ok", lerr == nil)
		inCache := bc.GetRegion(id) != nil
		v.Assert("storage-equals-cache", ok == inCache)
		if ok {
			stored++
		}
	}
	v.Assert("cache-count-equals-storage", bc.GetRegionCount() == stored)
	// the cached regions do not overlap
	rs := bc.GetRegions()
	for i := range rs {
		for j := i + 1; j < len(rs); j++ {
			a, b := rs[i], rs[j]
			aBeforeB := len(a.GetEndKey()) != 0 && string(a.GetEndKey()) <= string(b.GetStartKey())
			bBeforeA := len(b.GetEndKey()) != 0 && string(b.GetEndKey()) <= string(a.GetStartKey())
			v.Assert("cache-non-overlapping", aBeforeB || bBeforeA)
		}
	}
	v.Reach("end")
}

// VerifC17LoadStoresDense / VerifC17LoadRegionsDense: the same loads with consecutive concrete ids (param dense=1).
func VerifC17LoadStoresDense()  { VerifC17LoadStores() }
func VerifC17LoadRegionsDense() { VerifC17LoadRegions() }
