package schedule

import (
	"context"

	"github.com/pingcap/kvproto/pkg/metapb"
	v "github.com/tikv/pd/pkg/zzvrf"
	"github.com/tikv/pd/server/schedule/operator"
)

func c10CheckRegion(w *c10World) *operator.Operator {
	ctx := context.Background()
	oc := NewOperatorController(ctx, w.tc, nil)
	cc := NewCheckerController(ctx, w.tc, w.tc.RuleManager, oc)
	ops := cc.CheckRegion(w.region)
	v.Assert("at-most-one-operator", len(ops) <= 1)
	if len(ops) == 0 {
		return nil
	}
	return ops[0]
}

// VerifC10Replica: CheckerController.CheckRegion without placement rules (learner checker, then
// ReplicaChecker) on an arbitrary small cluster.
func VerifC10Replica() {
	w := c10Build(false)
	op := c10CheckRegion(w)
	v.Observe("op", op != nil)
	if op != nil {
		v.Reach("operator")
		v.Observe("desc", op.Desc())
		v.Observe("steps", c10Steps(op))
		voters := len(w.region.GetVoters())
		c10CheckOperator(w, op, voters > w.maxRep)
	} else {
		v.Reach("none")
		// liveness: too few peers and a fresh, empty, unconstrained up store exists
		if len(w.region.GetPeers()) < w.maxRep {
			exists := false
			for i := range w.stores {
				st := &w.stores[i]
				if w.region.GetStorePeer(st.id) != nil || st.lowSpace {
					continue
				}
				ok := v.And(st.state == metapb.StoreState_Up, st.age <= c10Disconnect, st.fresh)
				if len(w.labels) > 0 {
					// unconstrained: its zone is shared with no store of the region
					for _, ps := range w.peerStores {
						ok = v.And(ok, v.Not(v.StrEq(st.zone, w.store(ps).zone)))
					}
				}
				exists = v.Or(exists, ok)
			}
			v.Assert("repair-proposed-when-a-fresh-store-exists", v.Not(exists))
			v.Reach("short")
		}
	}
	v.Reach("end")
}
