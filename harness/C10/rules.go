package schedule

import (
	"github.com/pingcap/kvproto/pkg/metapb"
	v "github.com/tikv/pd/pkg/zzvrf"
	"github.com/tikv/pd/server/core"
	"github.com/tikv/pd/server/schedule/placement"
)

// VerifC10Rules: CheckerController.CheckRegion with placement rules (RuleChecker): the default voter rule
// (count 1..3, optional isolation level) and optionally a learner rule constrained to zone "a".
func VerifC10Rules() {
	w := c10Build(true)
	rm := w.tc.RuleManager
	if w.isolation != "" {
		if err := rm.SetRule(&placement.Rule{GroupID: "pd", ID: "default", Role: placement.Voter, Count: w.maxRep,
			LocationLabels: w.labels, IsolationLevel: w.isolation}); err != nil {
			v.Assume(false)
		}
	}
	learnerRule := v.Choice("learnerRule", 2) == 1
	if learnerRule {
		if err := rm.SetRule(&placement.Rule{GroupID: "pd", ID: "zlearner", Role: placement.Learner, Count: 1,
			LabelConstraints: []placement.LabelConstraint{{Key: "zone", Op: placement.In, Values: []string{"a"}}}}); err != nil {
			v.Assume(false)
		}
	}
	// the fit computed by the real fitter (subject of C12) is the reference for "rule satisfied" and "orphan"
	fit := w.tc.FitRegion(w.region)
	allSatisfied := true
	short := false
	for _, rf := range fit.RuleFits {
		allSatisfied = allSatisfied && rf.IsSatisfied()
		short = short || len(rf.Peers) < rf.Rule.Count
	}
	op := c10CheckRegion(w)
	v.Observe("op", op != nil)
	if op != nil {
		v.Reach("operator")
		v.Observe("desc", op.Desc())
		v.Observe("steps", c10Steps(op))
		// isolation is per rule: a voter joins the peers fitted to the default rule
		w.peerStores = nil
		for _, rf := range fit.RuleFits {
			if rf.Rule.ID == "default" {
				for _, p := range rf.Peers {
					w.peerStores = append(w.peerStores, p.GetStoreId())
				}
			}
		}
		ch := c10Changes(op)
		orphanRemoved := false
		for _, c := range ch {
			if !c.add {
				for _, o := range fit.OrphanPeers {
					orphanRemoved = orphanRemoved || o.GetStoreId() == c.store
				}
			}
		}
		w.skipIsolationForLearners = true
		c10CheckOperator(w, op, allSatisfied && orphanRemoved)
		// label constraints: the rule an addition serves is the rule of the peer it replaces, or, for a
		// plain addition, the learner rule for a learner and the default rule for a voter
		for _, c := range ch {
			if !c.add {
				continue
			}
			forLearnerRule := false
			replaces := false
			for _, r := range ch {
				if r.add {
					continue
				}
				replaces = true
				for _, rf := range fit.RuleFits {
					if rf.Rule.ID == "zlearner" {
						for _, p := range rf.Peers {
							forLearnerRule = forLearnerRule || p.GetStoreId() == r.store
						}
					}
				}
			}
			if !replaces && c10AddedRole(op, c) == metapb.PeerRole_Learner {
				v.Assert("learner-only-added-for-a-learner-rule", learnerRule)
				forLearnerRule = true
			}
			if st := w.store(c.store); st != nil && forLearnerRule {
				v.Assert("target-store-matches-label-constraints", v.StrEq(st.zone, "a"))
			}
		}
	} else {
		v.Reach("none")
		if short {
			exists := false
			for i := range w.stores {
				st := &w.stores[i]
				if w.region.GetStorePeer(st.id) != nil || st.lowSpace || st.exclusive {
					continue
				}
				ok := v.And(st.state == metapb.StoreState_Up, st.age <= c10Disconnect, st.fresh, v.StrEq(st.zone, "a"))
				for _, ps := range w.peerStores {
					ok = v.And(ok, v.Not(v.StrEq(st.zone, w.store(ps).zone)))
				}
				exists = v.Or(exists, ok)
			}
			v.Assert("repair-proposed-when-a-fresh-store-exists", v.Not(exists))
			v.Reach("short")
		}
	}
	v.Reach("end")
}

var _ = core.IsLearner
