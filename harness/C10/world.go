package schedule

import (
	"context"
	"time"

	"github.com/pingcap/kvproto/pkg/metapb"
	"github.com/pingcap/kvproto/pkg/pdpb"
	"github.com/tikv/pd/pkg/mock/mockcluster"
	v "github.com/tikv/pd/pkg/zzvrf"
	"github.com/tikv/pd/server/config"
	"github.com/tikv/pd/server/core"
	"github.com/tikv/pd/server/core/storelimit"
	"github.com/tikv/pd/server/schedule/operator"
	"github.com/tikv/pd/server/versioninfo"
)

const (
	c10Now        = int64(1600000000) * int64(time.Second)
	c10Disconnect = int64(20 * time.Second)
	c10GiB        = uint64(1) << 30
)

// c10Store: what the harness knows about a store, independent of the filters under test.
type c10Store struct {
	id        uint64
	state     metapb.StoreState // symbolic
	age       int64             // symbolic: now - last heartbeat, ns
	lowSpace  bool              // concrete (decides the concrete capacity figures)
	exclusive bool              // concrete: carries a "$dedicated" label no rule names
	fresh     bool              // symbolic: no busy flag, snapshots, pending peers, limit available
	zone      string            // symbolic one of three values
	host      string
}

type c10World struct {
	tc        *mockcluster.Cluster
	stores    []c10Store
	region    *core.RegionInfo
	maxRep    int
	labels    []string
	isolation string
	downStore uint64
	suspect   uint64
	// rules mode: the learner rule has no isolation level
	skipIsolationForLearners bool
	peerStores               []uint64
}

func (w *c10World) store(id uint64) *c10Store {
	for i := range w.stores {
		if w.stores[i].id == id {
			return &w.stores[i]
		}
	}
	return nil
}

func c10Label(name string) string {
	b := v.Byte(name)
	v.Assume(v.And(b >= 'a', b <= 'c'))
	return string([]byte{b})
}

// c10Build: nstores stores with symbolic state, heartbeat age, busy/snapshot/pending/limit figures and
// labels; a region with npeers peers on stores 1..npeers (leader on store 1).
func c10Build(rules bool) *c10World {
	v.FixClock(c10Now)
	w := &c10World{}
	cfg := &config.Config{}
	cfg.Schedule.MaxSnapshotCount = 3
	cfg.Schedule.MaxPendingPeerCount = 16
	cfg.Schedule.MaxStoreDownTime.Duration = 30 * time.Minute
	cfg.Schedule.LowSpaceRatio = 0.8
	cfg.Schedule.HighSpaceRatio = 0.7
	cfg.Schedule.RegionScoreFormulaVersion = "v2"
	cfg.Schedule.EnableRemoveDownReplica = true
	cfg.Schedule.EnableReplaceOfflineReplica = true
	cfg.Schedule.EnableMakeUpReplica = true
	cfg.Schedule.EnableRemoveExtraReplica = true
	cfg.Schedule.EnableLocationReplacement = true
	cfg.Schedule.ReplicaScheduleLimit = 64
	cfg.Schedule.StoreLimit = map[uint64]config.StoreLimitConfig{}
	cfg.ClusterVersion = *versioninfo.MinSupportedVersion(versioninfo.JointConsensus)
	cfg.Schedule.EnableJointConsensus = v.Param("joint", 0) == 1
	if rules {
		// the default rule's count drives loops in the fitter: concrete alternatives
		w.maxRep = 1 + v.Choice("maxReplicas", v.Param("maxrep", 3))
	} else {
		w.maxRep = v.Int("maxReplicas")
		v.Assume(v.And(w.maxRep >= 1, w.maxRep <= v.Param("maxrep", 3)))
	}
	cfg.Replication.MaxReplicas = uint64(w.maxRep)
	switch v.Choice("labelMode", 3) {
	case 0:
	case 1:
		w.labels = []string{"zone"}
	case 2:
		w.labels = []string{"zone"}
		w.isolation = "zone"
	}
	if len(w.labels) > 0 && v.Param("hostlevel", 0) == 1 {
		w.labels = append(w.labels, "host")
	}
	cfg.Replication.LocationLabels = w.labels
	cfg.Replication.IsolationLevel = w.isolation
	cfg.Replication.EnablePlacementRules = rules
	opts := config.NewPersistOptions(cfg)
	w.tc = mockcluster.NewCluster(context.Background(), opts)
	if v.Param("joint", 0) == 0 {
		w.tc.DisableFeature(versioninfo.JointConsensus)
	}
	npeers := 1 + v.Choice("npeers", v.Param("maxpeers", 3))
	ncand := v.Param("ncand", 1)
	full := v.Param("candfull", 1) == 1
	// which peer's store is the suspect one (symbolic health); the other peer stores are healthy
	suspect := 1
	if v.Choice("suspectLast", 2) == 1 {
		suspect = npeers
	}
	w.suspect = uint64(suspect)
	for i := 1; i <= npeers+ncand; i++ {
		tag := "s" + string(rune('0'+i))
		st := c10Store{id: uint64(i), zone: string([]byte{byte('a' + i - 1)}), host: "h", fresh: true}
		busy, limitOK := false, true
		var sending, receiving uint32
		pending := 0
		avail := 60 * c10GiB
		if i == suspect || i > npeers {
			st.state = metapb.StoreState(v.Int32(tag + "State"))
			v.Assume(v.And(st.state >= 0, st.state <= 2))
			st.age = v.Int64(tag + "Age")
			v.Assume(v.And(st.age >= 0, st.age <= int64(100*time.Hour)))
			busy = v.Bool(tag + "Busy")
			st.zone = c10Label(tag + "Zone")
			if v.Param("hostlevel", 0) == 1 {
				st.host = c10Label(tag + "Host")
			}
		}
		if i > npeers && full {
			limitOK = v.Bool(tag + "AddLimit")
			sending, receiving = v.Uint32(tag+"Sending"), v.Uint32(tag+"Receiving")
			pending = v.Int(tag + "Pending")
			v.Assume(v.And(pending >= 0, pending < 1<<20, sending < 1<<20, receiving < 1<<20))
			if v.Choice(tag+"LowSpace", 2) == 1 {
				st.lowSpace = true
				avail = 1 * c10GiB
			}
		}
		st.fresh = v.And(!busy, sending == 0, receiving == 0, pending == 0, limitOK)
		stats := &pdpb.StoreStats{Capacity: 100 * c10GiB, Available: avail, UsedSize: 100*c10GiB - avail,
			IsBusy: busy, SendingSnapCount: sending, ReceivingSnapCount: receiving}
		labels := []*metapb.StoreLabel{{Key: "zone", Value: st.zone}, {Key: "host", Value: st.host}}
		if rules && i > npeers && v.Choice(tag+"Exclusive", 2) == 1 {
			// a store reserved by a "$" label: only rules that name the label may use it
			st.exclusive = true
			labels = append(labels, &metapb.StoreLabel{Key: "$dedicated", Value: "analytics"})
		}
		store := core.NewStoreInfo(&metapb.Store{Id: st.id, State: st.state, LastHeartbeat: c10Now - st.age, Labels: labels},
			core.SetStoreStats(stats), core.SetPendingPeerCount(pending), core.SetRegionCount(10*i), core.SetRegionSize(int64(100*i)),
			core.AttachAvailableFunc(storelimit.AddPeer, func() bool { return limitOK }))
		w.tc.PutStore(store)
		w.stores = append(w.stores, st)
	}
	meta := &metapb.Region{Id: 1, StartKey: []byte("a"), EndKey: []byte("z"), RegionEpoch: &metapb.RegionEpoch{ConfVer: 5, Version: 5}}
	learner := v.Choice("learner", 2) == 1 && npeers > 1
	for i := 1; i <= npeers; i++ {
		p := &metapb.Peer{Id: uint64(100 + i), StoreId: uint64(i)}
		if learner && i == npeers {
			p.Role = metapb.PeerRole_Learner
		}
		meta.Peers = append(meta.Peers, p)
		w.peerStores = append(w.peerStores, uint64(i))
	}
	var ropts []core.RegionCreateOption
	if v.Choice("downPeer", 2) == 1 {
		w.downStore = w.suspect
	}
	if w.downStore != 0 {
		ropts = append(ropts, core.WithDownPeers([]*pdpb.PeerStats{{Peer: meta.Peers[w.downStore-1], DownSeconds: v.Uint64("downSeconds")}}))
	}
	if v.Param("pending", 0) == 1 && v.Choice("pendingPeer", 2) == 1 {
		ropts = append(ropts, core.WithPendingPeers([]*metapb.Peer{meta.Peers[npeers-1]}))
	}
	w.region = core.NewRegionInfo(meta, meta.Peers[0], ropts...)
	w.tc.PutRegion(w.region)
	return w
}

// c10Steps: a compact rendering of the steps for replay output.
func c10Steps(op *operator.Operator) string {
	out := ""
	for i := 0; i < op.Len(); i++ {
		kind, store := "?", uint64(0)
		switch s := op.Step(i).(type) {
		case operator.AddPeer:
			kind, store = "add", s.ToStore
		case operator.AddLearner:
			kind, store = "addlearner", s.ToStore
		case operator.AddLightPeer:
			kind, store = "addlight", s.ToStore
		case operator.AddLightLearner:
			kind, store = "addlightlearner", s.ToStore
		case operator.PromoteLearner:
			kind, store = "promote", s.ToStore
		case operator.RemovePeer:
			kind, store = "remove", s.FromStore
		case operator.TransferLeader:
			kind, store = "leader", s.ToStore
		case operator.ChangePeerV2Enter:
			kind = "enter"
		case operator.ChangePeerV2Leave:
			kind = "leave"
		}
		out += kind + string(rune('0'+store)) + " "
	}
	return out
}

type c10Change struct {
	add   bool
	store uint64
	idx   int
}

// c10Changes lists the peer additions and removals of an operator in step order.
func c10Changes(op *operator.Operator) (out []c10Change) {
	for i := 0; i < op.Len(); i++ {
		switch s := op.Step(i).(type) {
		case operator.AddPeer:
			out = append(out, c10Change{true, s.ToStore, i})
		case operator.AddLearner:
			out = append(out, c10Change{true, s.ToStore, i})
		case operator.AddLightPeer:
			out = append(out, c10Change{true, s.ToStore, i})
		case operator.AddLightLearner:
			out = append(out, c10Change{true, s.ToStore, i})
		case operator.RemovePeer:
			out = append(out, c10Change{false, s.FromStore, i})
		case operator.MergeRegion, operator.SplitRegion:
			v.Assert("checker-op-has-no-merge-or-split", false)
		}
	}
	return out
}

// c10CheckOperator: the obligations of C10 on an operator proposed for w.region.
// allowShrink: the specification allows this operator to lower the number of healthy peers.
func c10CheckOperator(w *c10World, op *operator.Operator, allowShrink bool) {
	ch := c10Changes(op)
	adds, removes := 0, 0
	var removed []uint64
	for _, c := range ch {
		if !c.add {
			removes++
			removed = append(removed, c.store)
		}
	}
	for _, c := range ch {
		if !c.add {
			continue
		}
		adds++
		st := w.store(c.store)
		v.Assert("target-store-exists", st != nil)
		if st == nil {
			continue
		}
		v.Assert("target-store-is-up", st.state == metapb.StoreState_Up)
		v.Assert("target-store-is-connected", st.age <= c10Disconnect)
		v.Assert("target-store-is-not-low-on-space", !st.lowSpace)
		v.Assert("target-store-is-not-reserved-by-an-exclusive-label", !st.exclusive)
		v.Assert("target-store-holds-no-peer-of-the-region", w.region.GetStorePeer(c.store) == nil)
		if w.isolation != "" && len(w.labels) > 0 && !(w.skipIsolationForLearners && c10AddedRole(op, c) == metapb.PeerRole_Learner) {
			for _, ps := range w.peerStores {
				replaced := false
				for _, r := range removed {
					replaced = replaced || r == ps
				}
				if !replaced {
					v.Assert("target-store-respects-isolation-level", v.Not(v.StrEq(st.zone, w.store(ps).zone)))
				}
			}
		}
		for _, r := range ch {
			if !r.add {
				v.Assert("replacement-adds-before-it-removes", c.idx < r.idx)
			}
		}
	}
	v.Assert("at-most-one-peer-added-and-removed", adds <= 1 && removes <= 1)
	if removes > adds {
		v.Assert("healthy-peer-count-lowered-only-when-allowed", allowShrink)
	}
}

// c10AddedRole: the role the added peer ends with (an AddLearner step followed by a promotion of the
// same store adds a voter).
func c10AddedRole(op *operator.Operator, c c10Change) metapb.PeerRole {
	for i := c.idx + 1; i < op.Len(); i++ {
		switch s := op.Step(i).(type) {
		case operator.PromoteLearner:
			if s.ToStore == c.store {
				return metapb.PeerRole_Voter
			}
		case operator.ChangePeerV2Enter:
			for _, p := range s.PromoteLearners {
				if p.ToStore == c.store {
					return metapb.PeerRole_Voter
				}
			}
		}
	}
	switch op.Step(c.idx).(type) {
	case operator.AddPeer, operator.AddLightPeer:
		return metapb.PeerRole_Voter
	}
	return metapb.PeerRole_Learner
}
