package server

import (
	"context"

	"github.com/pingcap/kvproto/pkg/metapb"
	"github.com/pingcap/kvproto/pkg/pdpb"
	"github.com/tikv/pd/pkg/mock/mockid"
	v "github.com/tikv/pd/pkg/zzvrf"
	"github.com/tikv/pd/server/cluster"
)

// VerifC14Tombstone: the gRPC entry points refuse a store that has been buried. Store 1 is a tombstone
// (in the cache and in storage); a PutStore or a StoreHeartbeat for it, with arbitrary address/version or
// statistics, is answered with the STORE_TOMBSTONE error and changes neither the cache nor the storage.
func VerifC14Tombstone() {
	w := vrfConfigServer()
	s := w.s
	rc := cluster.VerifNewCluster(mockid.NewIDAllocator(), s.persistOptions, s.storage)
	s.cluster = rc
	dead := &metapb.Store{Id: 1, Address: "tikv-1:20160", State: metapb.StoreState_Tombstone, Version: "4.0.0"}
	if err := rc.PutStore(dead); err != nil {
		// a brand new store may be registered as a tombstone by the operator API only; put it in directly
		v.Assume(false)
	}
	before := rc.GetStore(1)
	v.Assume(before != nil && before.GetState() == metapb.StoreState_Tombstone)
	hdr := &pdpb.RequestHeader{ClusterId: vrfClusterID}
	var perr *pdpb.Error
	if v.Choice("rpc", 2) == 0 {
		addr := "tikv-1:20160"
		if v.Choice("newAddress", 2) == 1 {
			addr = "tikv-9:20160"
		}
		resp, err := s.PutStore(context.Background(), &pdpb.PutStoreRequest{Header: hdr,
			Store: &metapb.Store{Id: 1, Address: addr, State: metapb.StoreState(v.Choice("claimedState", 3)), Version: "4.0.0"}})
		v.Assert("put-store-answers", err == nil && resp != nil)
		if resp != nil {
			perr = resp.GetHeader().GetError()
		}
		v.Reach("put")
	} else {
		resp, err := s.StoreHeartbeat(context.Background(), &pdpb.StoreHeartbeatRequest{Header: hdr,
			Stats: &pdpb.StoreStats{StoreId: 1, Capacity: v.Uint64("capacity"), Available: v.Uint64("available"), RegionCount: v.Uint32("regions")}})
		v.Assert("store-heartbeat-answers", err == nil && resp != nil)
		if resp != nil {
			perr = resp.GetHeader().GetError()
		}
		v.Reach("heartbeat")
	}
	v.Assert("buried-store-is-refused", perr != nil && perr.GetType() == pdpb.ErrorType_STORE_TOMBSTONE)
	after := rc.GetStore(1)
	v.Assert("buried-store-unchanged-in-cache", after == before)
	var m metapb.Store
	ok, lerr := s.storage.LoadStore(1, &m)
	v.Assert("buried-store-unchanged-in-storage", lerr == nil && ok && m.GetState() == metapb.StoreState_Tombstone && m.GetAddress() == "tikv-1:20160")
	v.Reach("end")
}
