package cluster

import (
	"context"
	"time"

	"github.com/pingcap/kvproto/pkg/metapb"
	"github.com/tikv/pd/pkg/mock/mockid"
	v "github.com/tikv/pd/pkg/zzvrf"
	"github.com/tikv/pd/server/config"
	"github.com/tikv/pd/server/core"
	"github.com/tikv/pd/server/kv"
	"github.com/tikv/pd/server/versioninfo"
)

const vrfNow = int64(1600000000) * int64(time.Second)

type vrfStoreSpec struct {
	present   bool
	state     metapb.StoreState
	destroyed bool
	addr      []byte
}

type vrfClusterWorld struct {
	rc  *RaftCluster
	fkv *kv.VerifFaultKV
}

func vrfNewCluster() *vrfClusterWorld {
	v.FixClock(vrfNow)
	cfg := &config.Config{}
	cfg.Replication.MaxReplicas = 3
	cfg.Schedule.StoreLimit = map[uint64]config.StoreLimitConfig{}
	cfg.Schedule.LowSpaceRatio = 0.8
	cfg.ClusterVersion = *versioninfo.MinSupportedVersion(versioninfo.Version4_0)
	w := &vrfClusterWorld{fkv: &kv.VerifFaultKV{Base: kv.NewMemoryKV()}}
	rc := &RaftCluster{ctx: context.Background()}
	rc.InitCluster(mockid.NewIDAllocator(), config.NewPersistOptions(cfg), core.NewStorage(w.fkv), core.NewBasicCluster())
	w.rc = rc
	return w
}

func vrfMeta(id uint64, sp vrfStoreSpec) *metapb.Store {
	return &metapb.Store{Id: id, Address: string(sp.addr), State: sp.state, PhysicallyDestroyed: sp.destroyed, Version: "4.0.0"}
}

func vrfSpecOf(s *core.StoreInfo) vrfStoreSpec {
	if s == nil {
		return vrfStoreSpec{}
	}
	return vrfStoreSpec{true, s.GetState(), s.IsPhysicallyDestroyed(), []byte(s.GetAddress())}
}

func live(sp vrfStoreSpec) bool {
	return sp.present && sp.state != metapb.StoreState_Tombstone && !sp.destroyed
}

// allowed: the store life cycle of the statement.
func vrfAllowed(o, n vrfStoreSpec) bool {
	if !o.present || !n.present {
		return true // creation / record cleanup are checked separately
	}
	if o.state == n.state {
		return true
	}
	switch o.state {
	case metapb.StoreState_Up:
		return n.state == metapb.StoreState_Offline
	case metapb.StoreState_Offline:
		return n.state == metapb.StoreState_Tombstone || (n.state == metapb.StoreState_Up && !o.destroyed)
	}
	return false // tombstone never leaves
}

// VerifC14Step: one store-lifecycle operation from an arbitrary state of two stores
// (distinct addresses among live stores, stored == served), with a storage write fault
// at any individual write.
func VerifC14Step() {
	w := vrfNewCluster()
	rc := w.rc
	pre := make([]vrfStoreSpec, 3) // index = store id (1,2)
	states := []metapb.StoreState{metapb.StoreState_Up, metapb.StoreState_Offline, metapb.StoreState_Tombstone}
	for id := 1; id <= 2; id++ {
		if id == 1 || v.Choice("present", 2) == 1 {
			sp := vrfStoreSpec{present: true, state: states[v.Choice("state", 3)], addr: v.Bytes("addr", 1)}
			if sp.state != metapb.StoreState_Up {
				sp.destroyed = v.Choice("destroyed", 2) == 1
			}
			pre[id] = sp
			if err := rc.putStoreLocked(core.NewStoreInfo(vrfMeta(uint64(id), sp))); err != nil {
				v.Assume(false)
			}
		}
	}
	if live(pre[1]) && live(pre[2]) {
		v.Assume(v.Not(v.BytesEq(pre[1].addr, pre[2].addr))) // invariant: live stores have distinct addresses
	}
	// store 1 may hold a region peer
	holds := v.Choice("store1HoldsRegion", 2) == 1
	if holds {
		rc.core.PutRegion(core.NewRegionInfo(&metapb.Region{Id: 50, Peers: []*metapb.Peer{{Id: 51, StoreId: 1}}}, &metapb.Peer{Id: 51, StoreId: 1}))
	}
	faultAt := -1
	if v.Param("faults", 1) == 1 {
		faultAt = v.Choice("faultAtWrite", 4) - 1 // -1 = none, else the k-th write fails
	}
	k := 0
	w.fkv.FailWrite = func(op, key string) bool {
		k++
		return k-1 == faultAt
	}
	var err error
	target := uint64(1 + v.Choice("target", 2))
	op := v.Choice("op", 7)
	switch op {
	case 0: // put: new id 3, or re-register an existing id, with an arbitrary address
		id := uint64(1 + v.Choice("putID", 3))
		err = rc.PutStore(&metapb.Store{Id: id, Address: string(v.Bytes("newAddr", 1)), Version: "4.0.0"})
		target = id
	case 1:
		err = rc.RemoveStore(target, v.Choice("physicallyDestroyed", 2) == 1)
	case 2:
		err = rc.UpStore(target)
	case 3:
		// buryStore's documented precondition: the store is empty (its only caller checks that)
		if target == 1 && holds {
			return
		}
		err = rc.buryStore(target)
	case 4:
		rc.checkStores()
	case 5:
		err = rc.SetStoreWeight(target, 2, 3)
	case 6:
		err = rc.RemoveTombStoneRecords()
	}
	w.fkv.FailWrite = nil
	v.Observe("op", op)
	v.Observe("err", err)
	post := make([]vrfStoreSpec, 4)
	for id := 1; id <= 3; id++ {
		post[id] = vrfSpecOf(rc.GetStore(uint64(id)))
	}
	for id := 1; id <= 2; id++ {
		o, n := pre[id], post[id]
		v.Assert("lifecycle-transition-allowed", vrfAllowed(o, n))
		if o.present && o.state == metapb.StoreState_Tombstone && n.present {
			v.Assert("tombstone-stays-tombstone", n.state == metapb.StoreState_Tombstone)
		}
		if o.present && n.present && o.state != metapb.StoreState_Tombstone && n.state == metapb.StoreState_Tombstone {
			v.Assert("buried-only-when-empty", !(id == 1 && holds))
			v.Reach("buried")
		}
		if err != nil && op != 4 && op != 6 && uint64(id) == target {
			v.Assert("failed-op-keeps-served-store", o.present == n.present && (!o.present || (o.state == n.state && o.destroyed == n.destroyed && v.ConcreteBool(v.BytesEq(o.addr, n.addr)))))
		}
	}
	// live stores keep distinct addresses
	for a := 1; a <= 3; a++ {
		for b := a + 1; b <= 3; b++ {
			if live(post[a]) && live(post[b]) {
				v.Assert("live-stores-distinct-addresses", v.Not(v.BytesEq(post[a].addr, post[b].addr)))
			}
		}
	}
	// the stored record equals the served record, also after a failed write
	{
		for id := 1; id <= 3; id++ {
			var m metapb.Store
			ok, lerr := rc.storage.LoadStore(uint64(id), &m)
			v.Assert("load-ok", lerr == nil)
			v.Assert("stored-presence-equals-served", ok == post[id].present)
			if ok && post[id].present {
				v.Assert("stored-equals-served", m.State == post[id].state && m.PhysicallyDestroyed == post[id].destroyed && v.ConcreteBool(v.BytesEq([]byte(m.Address), post[id].addr)))
			}
		}
	}
	// weights: a successful SetStoreWeight is served and reloads from storage; a failed one
	// leaves the served weights (the defaults of NewStoreInfo) untouched
	if op == 5 {
		if s := rc.GetStore(target); s != nil {
			if err == nil {
				v.Assert("weight-served", s.GetLeaderWeight() == 2 && s.GetRegionWeight() == 3)
				lerr := rc.storage.LoadStores(func(ls *core.StoreInfo) {
					if ls.GetID() == target {
						v.Assert("weight-stored-equals-served", ls.GetLeaderWeight() == 2 && ls.GetRegionWeight() == 3)
						v.Reach("weight-reloaded")
					}
				})
				v.Assert("weight-load-ok", lerr == nil)
			} else {
				v.Assert("failed-weight-keeps-served", s.GetLeaderWeight() == 1 && s.GetRegionWeight() == 1)
			}
		}
	}
	if err == nil {
		v.Reach("op-ok")
	} else {
		v.Reach("op-failed")
	}
	v.Reach("end")
}
