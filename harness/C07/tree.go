package core

import (
	"github.com/pingcap/kvproto/pkg/metapb"
	v "github.com/tikv/pd/pkg/zzvrf"
)

// keys: empty, or one symbolic byte. Comparisons in the oracle are decided by
// the solver and made concrete (one path per ordering of the endpoints).
func vLess(a, b []byte) bool { return v.ConcreteBool(v.BytesLess(a, b)) }
func vEq(a, b []byte) bool   { return v.ConcreteBool(v.BytesEq(a, b)) }

// end keys: empty means +infinity
func endLess(a, b []byte) bool { // a < b as end keys
	if len(a) == 0 {
		return false
	}
	if len(b) == 0 {
		return true
	}
	return vLess(a, b)
}

// keyBeforeEnd: key < end (end "" = +inf)
func keyBeforeEnd(key, end []byte) bool { return len(end) == 0 || vLess(key, end) }

func specOverlap(a, b *RegionInfo) bool {
	// a.start < b.end && b.start < a.end
	return keyBeforeEnd(a.GetStartKey(), b.GetEndKey()) && keyBeforeEnd(b.GetStartKey(), a.GetEndKey())
}

func specContains(r *RegionInfo, key []byte) bool {
	return !vLess(key, r.GetStartKey()) && keyBeforeEnd(key, r.GetEndKey())
}

func vrfKey(name string) []byte {
	if v.Choice(name+"Empty", 2) == 1 {
		return []byte{}
	}
	return v.Bytes(name, 1)
}

func vrfRegion(id uint64, peersVary bool) *RegionInfo {
	start, end := vrfKey("start"), vrfKey("end")
	if len(end) != 0 {
		v.Assume(v.BytesLess(start, end))
	}
	leaderStore := uint64(1)
	role := metapb.PeerRole_Voter
	if peersVary {
		leaderStore = uint64(1 + v.Choice("leaderStore", 2))
		if v.Choice("otherIsLearner", 2) == 1 {
			role = metapb.PeerRole_Learner
		}
	}
	other := uint64(3) - leaderStore
	lp := &metapb.Peer{Id: id*10 + leaderStore, StoreId: leaderStore}
	op := &metapb.Peer{Id: id*10 + other, StoreId: other, Role: role}
	size := v.Int64("size")
	v.Assume(v.And(size >= 0, size <= 1000))
	opts := []RegionCreateOption{SetApproximateSize(size)}
	if peersVary {
		// the pending peer is none, the other peer, or the leader's own peer: the last lets a
		// pending entry move between stores while peers, leader and count stay the same
		switch v.Choice("pending", 3) {
		case 1:
			opts = append(opts, WithPendingPeers([]*metapb.Peer{op}))
		case 2:
			opts = append(opts, WithPendingPeers([]*metapb.Peer{lp}))
		}
	}
	return NewRegionInfo(&metapb.Region{Id: id, StartKey: start, EndKey: end, Peers: []*metapb.Peer{lp, op}}, lp, opts...)
}

// VerifC07History: k operations (put of a region with one of 3 ids and arbitrary
// range/peers/size, or removal) on a RegionsInfo, mirrored on a plain list; then
// every lookup / statistic is compared with a linear scan of the list.
func VerifC07History() {
	k := v.Param("ops", 3)
	mode := v.Param("mode", 0) // 0 point lookups, 1 range queries, 2 statistics
	r := NewRegionsInfo()
	var spec []*RegionInfo
	for i := 0; i < k; i++ {
		if len(spec) > 0 && v.Choice("remove", 2) == 1 {
			j := v.Choice("which", len(spec))
			r.RemoveRegion(spec[j])
			spec = append(spec[:j:j], spec[j+1:]...)
			continue
		}
		reg := vrfRegion(uint64(1+v.Choice("id", 3)), mode == 2)
		overlaps := r.SetRegion(reg)
		var keep []*RegionInfo
		nOver := 0
		for _, o := range spec {
			if o.GetID() == reg.GetID() {
				continue
			}
			if specOverlap(o, reg) {
				nOver++
				continue
			}
			keep = append(keep, o)
		}
		v.Assert("overlaps-reported", len(overlaps) == nOver)
		spec = append(keep, reg)
	}
	// --- sizes
	v.Assert("len", r.Len() == len(spec))
	v.Assert("tree-len-equals-len", r.TreeLen() == r.Len())
	for _, o := range spec {
		v.Assert("get-by-id", r.GetRegion(o.GetID()) == o)
	}
	if mode == 0 {
		vrfPointQueries(r, spec)
	} else if mode == 1 {
		vrfRangeQueries(r, spec)
	} else {
		vrfStats(r, spec)
	}
	v.Reach("end")
}

func vrfPointQueries(r *RegionsInfo, spec []*RegionInfo) {
	q := vrfKey("query")
	var want *RegionInfo
	for _, o := range spec {
		if specContains(o, q) {
			want = o
		}
	}
	v.Assert("search-region", r.SearchRegion(q) == want)
	// previous region: the one whose end key equals the start key of the region holding q
	var wantPrev *RegionInfo
	if want != nil {
		for _, o := range spec {
			if o != want && len(o.GetEndKey()) != 0 && vEq(o.GetEndKey(), want.GetStartKey()) {
				wantPrev = o
			}
		}
	}
	v.Assert("search-prev-region", r.SearchPrevRegion(q) == wantPrev)
}

func vrfRangeQueries(r *RegionsInfo, spec []*RegionInfo) {
	probe := vrfRegion(9, false)
	got := r.GetOverlaps(probe)
	n := 0
	for _, o := range spec {
		if specOverlap(o, probe) {
			n++
			found := false
			for _, g := range got {
				if g == o {
					found = true
				}
			}
			v.Assert("overlap-listed", found)
		}
	}
	v.Assert("overlap-count", len(got) == n)
	// --- scan of [probe.start, probe.end) with a limit
	limit := v.Choice("limit", 3) // 0 = unlimited
	scan := r.ScanRange(probe.GetStartKey(), probe.GetEndKey(), limit)
	// oracle: regions that end after probe.start and start before probe.end, in key order, first `limit`
	var cand []*RegionInfo
	for _, o := range spec {
		if keyBeforeEnd(probe.GetStartKey(), o.GetEndKey()) && keyBeforeEnd(o.GetStartKey(), probe.GetEndKey()) {
			cand = append(cand, o)
		}
	}
	for i := 1; i < len(cand); i++ { // insertion sort by start key
		for j := i; j > 0 && vLess(cand[j].GetStartKey(), cand[j-1].GetStartKey()); j-- {
			cand[j], cand[j-1] = cand[j-1], cand[j]
		}
	}
	if limit > 0 && len(cand) > limit {
		cand = cand[:limit]
	}
	v.Assert("scan-count", len(scan) == len(cand))
	if len(scan) == len(cand) {
		for i := range cand {
			v.Assert("scan-order", scan[i] == cand[i])
		}
	}
	// --- random pick inside [probe.start, probe.end) (rank queries of the btree; the random index is symbolic):
	// whatever is returned is a region of the set lying inside the range
	if v.Param("random", 1) == 1 && (len(probe.GetEndKey()) == 0 || vLess(probe.GetStartKey(), probe.GetEndKey())) {
		pick := r.tree.RandomRegion([]KeyRange{NewKeyRange(string(probe.GetStartKey()), string(probe.GetEndKey()))})
		if pick != nil {
			v.Reach("picked")
			in := false
			for _, o := range spec {
				in = in || o == pick
			}
			v.Assert("random-region-is-in-the-set", in)
			v.Assert("random-region-starts-inside-the-range", v.Not(vLessB(pick.GetStartKey(), probe.GetStartKey())))
			if len(probe.GetEndKey()) != 0 {
				v.Assert("random-region-ends-inside-the-range", v.And(len(pick.GetEndKey()) != 0, v.Not(vLessB(probe.GetEndKey(), pick.GetEndKey()))))
			}
		}
	}
}

// vLessB: symbolic (non-forking) a < b
func vLessB(a, b []byte) bool { return v.BytesLess(a, b) }

func vrfStats(r *RegionsInfo, spec []*RegionInfo) {
	for st := uint64(1); st <= 2; st++ {
		var leaders, followers, learners, pendings int
		var leaderSize, followerSize, learnerSize, pendingSize int64
		for _, o := range spec {
			for _, p := range o.GetPeers() {
				if p.StoreId != st {
					continue
				}
				switch {
				case p.Id == o.GetLeader().GetId():
					leaders++
					leaderSize += o.GetApproximateSize()
				case p.Role == metapb.PeerRole_Learner:
					learners++
					learnerSize += o.GetApproximateSize()
				default:
					followers++
					followerSize += o.GetApproximateSize()
				}
			}
			for _, p := range o.GetPendingPeers() {
				if p.StoreId == st {
					pendings++
					pendingSize += o.GetApproximateSize()
				}
			}
		}
		v.Assert("leader-count", r.GetStoreLeaderCount(st) == leaders)
		v.Assert("follower-count", r.GetStoreFollowerCount(st) == followers)
		v.Assert("learner-count", r.GetStoreLearnerCount(st) == learners)
		v.Assert("pending-count", r.GetStorePendingPeerCount(st) == pendings)
		v.Assert("pending-size", r.pendingPeers[st].length() == 0 || r.pendingPeers[st].TotalSize() == pendingSize)
		v.Assert("leader-size", r.GetStoreLeaderRegionSize(st) == leaderSize)
		v.Assert("follower-size", r.GetStoreFollowerRegionSize(st) == followerSize)
		v.Assert("learner-size", r.GetStoreLearnerRegionSize(st) == learnerSize)
		v.Assert("region-count", r.GetStoreRegionCount(st) == leaders+followers+learners)
	}
}
