package tso

import (
	"context"
	"errors"
	"time"

	"github.com/pingcap/kvproto/pkg/pdpb"
	v "github.com/tikv/pd/pkg/zzvrf"
	"github.com/tikv/pd/pkg/typeutil"
	"github.com/tikv/pd/server/election"
)

// The collect/write-back round trip (GlobalTSOAllocator.SyncMaxTS: gRPC fan-out to the Local TSO Allocator
// leaders) is cut out of GenerateTSO by a source patch in the overlay and replaced by this contract stub.
// The contract is what VerifC05SyncMaxTS establishes for the real server-side handler, applied to a model of
// the remote allocators' in-memory timestamps: without skipCheck a PD whose largest local timestamp is not
// below the proposal answers it (+1 logical when equal) and writes nothing, otherwise it raises every
// allocator it leads to the proposal; with skipCheck it always writes.
type c05Remote struct{ p, l int64 } // physical ms, raw logical

var (
	c05Remotes   []*c05Remote
	c05Colocated bool // one PD leads every Local TSO Allocator (else one PD per datacenter)
	c05Calls     int
	c05Failures  int
)

func c05TsLess(p1, l1, p2, l2 int64) bool { return p1 < p2 || (p1 == p2 && l1 < l2) }

func (gta *GlobalTSOAllocator) SyncMaxTS(ctx context.Context, dcLocationMap map[string]DCLocationInfo, maxTSO *pdpb.Timestamp, skipCheck bool) error {
	c05Calls++
	if c05Failures < 1 && v.Choice("rpcFails", 2) == 1 { // at most one failed round trip per request
		c05Failures++
		return errors.New("sync max ts rpc failed")
	}
	orig := *maxTSO
	groups := [][]*c05Remote{c05Remotes}
	if !c05Colocated {
		groups = nil
		for _, r := range c05Remotes {
			groups = append(groups, []*c05Remote{r})
		}
	}
	for _, g := range groups {
		// the handler's decision is taken on the largest timestamp of the allocators this PD leads
		mp, ml := g[0].p, g[0].l
		for _, r := range g[1:] {
			if c05TsLess(mp, ml, r.p, r.l) {
				mp, ml = r.p, r.l
			}
		}
		if !skipCheck && !c05TsLess(mp, ml, orig.Physical, orig.Logical) {
			if mp == orig.Physical && ml == orig.Logical {
				ml++
			}
			if c05TsLess(maxTSO.Physical, maxTSO.Logical, mp, ml) {
				maxTSO.Physical, maxTSO.Logical = mp, ml
			}
			continue
		}
		for _, r := range g {
			if c05TsLess(r.p, r.l, orig.Physical, orig.Logical) {
				r.p, r.l = orig.Physical, orig.Logical
			}
		}
	}
	return nil
}

// VerifC05Global: one GlobalTSOAllocator.GenerateTSO with two datacenters configured, from an arbitrary
// in-memory global timestamp and arbitrary remote local timestamps.
func VerifC05Global() {
	am, s := c05Manager()
	now := int64(1600000000) * int64(time.Second)
	v.FixClock(now)
	am.saveInterval = 3 * time.Second
	am.updatePhysicalInterval = 50 * time.Millisecond
	am.maxResetTSGap = func() time.Duration { return 24 * time.Hour }
	am.mu.clusterDCLocations["dc-1"] = &DCLocationInfo{ServerIDs: []uint64{1}, Suffix: 1}
	am.mu.clusterDCLocations["dc-2"] = &DCLocationInfo{ServerIDs: []uint64{2}, Suffix: 2}
	am.mu.maxSuffix = 2
	bits := uint(CalSuffixBits(2))
	ls := election.VerifLeadership(am.member.Client(), c05Root+"/leader", "pd-1-value", 7, time.Unix(0, int64(1)<<62))
	gta := NewGlobalTSOAllocator(am, ls).(*GlobalTSOAllocator)
	// physical parts are concrete alternatives around one instant T (the ms<->ns conversions of symbolic
	// physical times are what the solvers cannot digest here); all logical parts are symbolic
	T := now / int64(time.Millisecond)
	gp := T + []int64{0, 1}[v.Choice("global-physical", 2)]
	gl := v.Int64("global-logical")
	v.Assume(v.And(gl >= 0, gl < maxLogical))
	gta.timestampOracle.tsoMux.physical = time.Unix(0, gp*int64(time.Millisecond))
	gta.timestampOracle.tsoMux.logical = gl
	small := v.Param("small", 0) == 1
	since := int64(0)
	if !small {
		since = []int64{0, 2}[v.Choice("sinceUpdateMs", 2)]
	}
	gta.timestampOracle.tsoMux.updateTime = time.Unix(0, now-since*int64(time.Millisecond))
	saved := gp*int64(time.Millisecond) + int64(3*time.Second)
	gta.timestampOracle.lastSavedTime.Store(time.Unix(0, saved))
	s.SetRaw(gta.timestampOracle.getTimestampPath(), typeutil.Uint64ToBytes(uint64(saved)))
	rtt := int64(0)
	if !small {
		rtt = []int64{0, 1}[v.Choice("syncRTTms", 2)]
	}
	gta.setSyncRTT(rtt)

	c05Remotes, c05Calls, c05Failures = nil, 0, 0
	c05Colocated = v.Choice("colocated", 2) == 1
	var before []c05Remote
	for _, dc := range []string{"dc-1", "dc-2"} {
		alts := []int64{-1, 0, 1, 4, 5000}
		if small {
			alts = []int64{0, 1, 5000}
		}
		p, l := T+alts[v.Choice(dc+"-physical", len(alts))], v.Int64(dc+"-logical")
		// raw logical parts whose differentiated value stays below the logical limit, as every grant keeps them
		v.Assume(v.And(l >= 0, l < maxLogical>>bits))
		c05Remotes = append(c05Remotes, &c05Remote{p, l})
		before = append(before, c05Remote{p, l})
	}
	count := v.Uint32("count")
	v.Assume(v.And(count >= 1, count < 1<<10))
	ts, err := gta.GenerateTSO(count)
	v.Observe("err", err)
	if err != nil {
		v.Reach("error")
		return
	}
	v.Reach("granted")
	v.Assert("suffix-width-reported", ts.SuffixBits == uint32(bits))
	width := int64(1) << bits // concrete
	v.Assert("global-suffix-is-zero", ts.Logical%width == 0)
	raw := ts.Logical / width
	v.Assert("global-logical-below-the-limit", v.And(ts.Logical >= 0, ts.Logical < maxLogical))
	for i, b := range before {
		// local timestamps granted before the request began are at most (b.p, b.l<<bits+suffix)
		v.Assert("global-timestamp-above-every-earlier-local-timestamp", v.Or(b.p < ts.Physical, v.And(b.p == ts.Physical, b.l < raw)))
		// every later local timestamp is above what the allocator holds now
		r := c05Remotes[i]
		v.Assert("every-local-allocator-raised-to-the-global-timestamp", v.Not(v.Or(r.p < ts.Physical, v.And(r.p == ts.Physical, r.l < raw))))
	}
	// the global allocator itself will not grant this timestamp again
	cp, cl := gta.timestampOracle.getTSO()
	cpm := cp.UnixNano() / int64(time.Millisecond)
	v.Assert("global-memory-not-below-the-grant", v.Not(v.Or(cpm < ts.Physical, v.And(cpm == ts.Physical, cl < raw))))
	v.Reach("end")
}
