package tso

import (
	"context"
	"time"

	"github.com/tikv/pd/pkg/typeutil"
	"github.com/tikv/pd/server/election"
	"github.com/tikv/pd/server/member"
)

// VerifLocalState is the harness-chosen state of one Local TSO Allocator this PD leads.
type VerifLocalState struct {
	DC                  string
	Leadership          *election.Leadership
	PhysicalNs, Logical int64
	LastSavedNs         int64
	Suffix              int32
}

// VerifLocalManager builds an AllocatorManager holding initialised Local TSO Allocator leaders in the given
// in-memory states (harness helper, overlay only): what SetUpAllocator + campaign + Initialize leave behind.
func VerifLocalManager(m *member.Member, rootPath string, maxResetTSGap time.Duration, states []VerifLocalState) *AllocatorManager {
	am := &AllocatorManager{enableLocalTSO: true, member: m, rootPath: rootPath, saveInterval: 3 * time.Second,
		updatePhysicalInterval: 50 * time.Millisecond, maxResetTSGap: func() time.Duration { return maxResetTSGap }}
	am.mu.allocatorGroups = map[string]*allocatorGroup{}
	am.mu.clusterDCLocations = map[string]*DCLocationInfo{}
	for _, st := range states {
		lta := NewLocalTSOAllocator(am, st.Leadership, st.DC).(*LocalTSOAllocator)
		lta.timestampOracle.suffix = int(st.Suffix)
		lta.timestampOracle.tsoMux.physical = time.Unix(0, st.PhysicalNs)
		lta.timestampOracle.tsoMux.logical = st.Logical
		lta.timestampOracle.lastSavedTime.Store(time.Unix(0, st.LastSavedNs))
		lta.EnableAllocatorLeader()
		am.mu.allocatorGroups[st.DC] = &allocatorGroup{dcLocation: st.DC, ctx: context.Background(), leadership: st.Leadership, allocator: lta}
		am.mu.clusterDCLocations[st.DC] = &DCLocationInfo{ServerIDs: []uint64{m.ID()}, Suffix: st.Suffix}
		if st.Suffix > am.mu.maxSuffix {
			am.mu.maxSuffix = st.Suffix
		}
	}
	return am
}

// VerifLocalTSO reads a local allocator's in-memory timestamp (physical in ns, logical).
func VerifLocalTSO(am *AllocatorManager, dc string) (int64, int64) {
	ag := am.mu.allocatorGroups[dc]
	p, l := ag.allocator.(*LocalTSOAllocator).timestampOracle.getTSO()
	return p.UnixNano(), l
}

// VerifTimestampPath is the etcd key of a local allocator's time window.
func VerifTimestampPath(am *AllocatorManager, dc string) string {
	return am.mu.allocatorGroups[dc].allocator.(*LocalTSOAllocator).timestampOracle.getTimestampPath()
}

var _ = typeutil.ZeroTime
