package server

import (
	"context"
	"time"

	"github.com/pingcap/kvproto/pkg/pdpb"
	v "github.com/tikv/pd/pkg/zzvrf"
	"github.com/tikv/pd/pkg/typeutil"
	"github.com/tikv/pd/server/election"
	"github.com/tikv/pd/server/kv"
	"github.com/tikv/pd/server/tso"
)

var c05SyncDCs = []string{"dc-1", "dc-2"}

// tsLess: (physical ms, logical) order of two timestamps.
func c05Less(p1, l1, p2, l2 int64) bool { return v.Or(p1 < p2, v.And(p1 == p2, l1 < l2)) }

// VerifC05SyncMaxTS: the server-side step of the global/local synchronisation. This PD leads the Local TSO
// Allocators of two datacenters with arbitrary in-memory timestamps; one SyncMaxTS request (check phase or
// write phase) carries an arbitrary proposed maximum.
func VerifC05SyncMaxTS() {
	w := vrfNewServer(kv.NewMemoryKV())
	s := w.s
	now := int64(1600000000) * int64(time.Second)
	v.FixClock(now)
	var states []tso.VerifLocalState
	for i, dc := range c05SyncDCs {
		key := "/pd/7/lta/" + dc
		ls := election.VerifLeadership(s.client, key, "pd-1-value", 7, time.Unix(0, int64(1)<<62))
		w.etcd.SetRaw(key, []byte("pd-1-value"))
		pms := v.Int64(dc + "-physicalMs")
		v.Assume(v.And(pms > 1500000000000, pms < 1700000000000))
		l := v.Int64(dc + "-logical")
		v.Assume(v.And(l >= 0, l < 1<<18))
		// the persisted window is ahead of the in-memory time, as UpdateTimestamp keeps it
		saved := pms*int64(time.Millisecond) + int64(3*time.Second)
		w.etcd.SetRaw(key+"/timestamp", typeutil.Uint64ToBytes(uint64(saved)))
		states = append(states, tso.VerifLocalState{DC: dc, Leadership: ls, PhysicalNs: pms * int64(time.Millisecond), Logical: l, LastSavedNs: saved, Suffix: int32(i + 1)})
	}
	s.tsoAllocatorManager = tso.VerifLocalManager(s.member, "/pd/7", 24*time.Hour, states)
	reqP, reqL := v.Int64("req-physicalMs"), v.Int64("req-logical")
	v.Assume(v.And(reqP > 1500000000000, reqP < 1700000000000, reqL >= 0, reqL < 1<<18))
	skip := v.Choice("skipCheck", 2) == 1
	type pl struct{ p, l int64 }
	before := map[string]pl{}
	for _, dc := range c05SyncDCs {
		p, l := tso.VerifLocalTSO(s.tsoAllocatorManager, dc)
		before[dc] = pl{p / int64(time.Millisecond), l}
	}
	resp, err := s.SyncMaxTS(context.Background(), &pdpb.SyncMaxTSRequest{Header: &pdpb.RequestHeader{ClusterId: vrfClusterID, SenderId: 1},
		MaxTs: &pdpb.Timestamp{Physical: reqP, Logical: reqL}, SkipCheck: skip})
	v.Observe("err", err)
	for _, dc := range c05SyncDCs {
		p, l := tso.VerifLocalTSO(s.tsoAllocatorManager, dc)
		p /= int64(time.Millisecond)
		v.Assert("local-timestamp-never-goes-back", v.Not(c05Less(p, l, before[dc].p, before[dc].l)))
		// the persisted window stays ahead of the in-memory time, so that the next allocator leader of this
		// datacenter starts above everything granted (and above the synchronised maximum)
		if raw := w.etcd.Value(tso.VerifTimestampPath(s.tsoAllocatorManager, dc)); raw != nil {
			win, perr := typeutil.BytesToUint64(raw)
			v.Assert("persisted-window-stays-ahead-of-memory", perr == nil && int64(win) >= p*int64(time.Millisecond))
		} else {
			v.Assert("persisted-window-exists", false)
		}
		if err == nil && resp.GetMaxLocalTs() == nil {
			// the proposed maximum was written: every local allocator is now at or above it, so every
			// later local timestamp is greater than the global one built from it
			v.Assert("written-maximum-reaches-every-local-allocator", v.Not(c05Less(p, l, reqP, reqL)))
		}
	}
	if err == nil {
		if m := resp.GetMaxLocalTs(); m != nil {
			v.Reach("larger-local")
			v.Assert("check-phase-only-without-skip", !skip)
			// the answer is above the proposal and not below any local timestamp
			v.Assert("answered-maximum-is-above-the-proposal", c05Less(reqP, reqL, m.Physical, m.Logical))
			for _, dc := range c05SyncDCs {
				v.Assert("answered-maximum-covers-every-local-timestamp", v.Not(c05Less(m.Physical, m.Logical, before[dc].p, before[dc].l)))
			}
		} else {
			v.Reach("written")
			v.Assert("all-led-datacenters-are-reported-synced", len(resp.GetSyncedDcs()) == len(c05SyncDCs))
		}
	} else {
		v.Reach("error")
	}
	v.Reach("end")
}
