package tso

import (
	"strconv"
	"time"

	v "github.com/tikv/pd/pkg/zzvrf"
	"github.com/tikv/pd/pkg/zzvrf/vetcd"
	"github.com/tikv/pd/server/election"
	"github.com/tikv/pd/server/member"
)

const c05Root = "/pd/7"

var c05DCs = []string{"dc-1", "dc-2", "dc-3"}

// c05Manager: an AllocatorManager of the PD leader over an in-memory etcd.
func c05Manager() (*AllocatorManager, *vetcd.Store) {
	s := vetcd.New()
	c := s.Client()
	ls := election.VerifLeadership(c, c05Root+"/leader", "pd-1-value", 7, time.Unix(0, int64(1)<<62))
	s.SetRaw(c05Root+"/leader", []byte("pd-1-value"))
	am := &AllocatorManager{rootPath: c05Root, member: member.VerifMember(c, ls, 1, c05Root, "pd-1-value", true)}
	am.mu.allocatorGroups = map[string]*allocatorGroup{}
	am.mu.clusterDCLocations = map[string]*DCLocationInfo{}
	return am, s
}

// VerifC05Suffix: getOrCreateLocalTSOSuffix from an arbitrary persisted suffix map (any subset of three
// datacenters with arbitrary distinct positive suffixes), for a known or a new datacenter, then for a
// second datacenter.
func VerifC05Suffix() {
	am, s := c05Manager()
	have := map[string]int32{}
	for _, dc := range c05DCs {
		if v.Choice("has-"+dc, 2) == 1 {
			x := v.Int32("suffix-" + dc)
			v.Assume(v.And(x >= 1, x < 1<<20))
			for _, y := range have {
				v.Assume(x != y)
			}
			have[dc] = x
			s.SetRaw(am.GetLocalTSOSuffixPath(dc), []byte(strconv.FormatInt(int64(x), 10)))
		}
	}
	check := func(tag, dc string) int32 {
		old, had := have[dc]
		got, err := am.getOrCreateLocalTSOSuffix(dc)
		v.Assert(tag+"-no-error", err == nil)
		if err != nil {
			return 0
		}
		if had {
			v.Assert(tag+"-datacenter-keeps-its-suffix", got == old)
			v.Reach("kept")
		} else {
			v.Assert(tag+"-new-suffix-is-positive", got >= 1)
			for _, y := range have {
				v.Assert(tag+"-no-two-datacenters-share-a-suffix", got != y)
			}
			v.Reach("created")
		}
		// what is persisted is what was answered
		raw := s.Value(am.GetLocalTSOSuffixPath(dc))
		v.Assert(tag+"-suffix-is-persisted", raw != nil)
		if raw != nil {
			n, perr := strconv.ParseInt(string(raw), 10, 32)
			v.Assert(tag+"-persisted-suffix-is-the-answer", perr == nil && int32(n) == got)
		}
		have[dc] = got
		return got
	}
	a := c05DCs[v.Choice("first", 3)]
	b := c05DCs[v.Choice("second", 3)]
	sa := check("first", a)
	sb := check("second", b)
	if a != b {
		v.Assert("two-datacenters-get-different-suffixes", sa != sb)
	} else {
		v.Assert("same-datacenter-same-suffix", sa == sb)
	}
	v.Reach("end")
}

// VerifC05Differentiate: with the suffix width computed by CalSuffixBits for the largest suffix in use,
// timestamps of two allocators with different suffixes never collide, the order of the raw logical part
// is kept, and the suffix can be read back.
func VerifC05Differentiate() {
	max := int32(v.Choice("maxSuffix", v.Param("maxsuffix", 9)))
	bits := CalSuffixBits(max)
	s1, s2 := v.Int32("suffix1"), v.Int32("suffix2")
	v.Assume(v.And(s1 >= 0, s1 <= max, s2 >= 0, s2 <= max))
	l1, l2 := v.Int64("logical1"), v.Int64("logical2")
	v.Assume(v.And(l1 >= 0, l1 < maxLogical, l2 >= 0, l2 < maxLogical))
	t1 := &timestampOracle{suffix: int(s1)}
	t2 := &timestampOracle{suffix: int(s2)}
	d1, d2 := t1.differentiateLogical(l1, bits), t2.differentiateLogical(l2, bits)
	v.Assert("different-suffixes-never-collide", v.Or(s1 == s2, d1 != d2))
	v.Assert("raw-order-is-kept", v.Or(l1 >= l2, d1 < d2))
	v.Assert("suffix-fits-the-width", int64(s1) < int64(1)<<uint(bits))
	v.Assert("suffix-reads-back", d1&(int64(1)<<uint(bits)-1) == int64(s1))
	v.Assert("raw-logical-reads-back", d1>>uint(bits) == l1)
	v.Reach("end")
}
