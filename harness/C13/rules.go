package placement

import (
	"encoding/hex"

	"github.com/pingcap/kvproto/pkg/metapb"
	v "github.com/tikv/pd/pkg/zzvrf"
	"github.com/tikv/pd/server/core"
	"github.com/tikv/pd/server/kv"
)

func vLessK(a, b []byte) bool { return v.ConcreteBool(v.BytesLess(a, b)) }

func vrfKeyC13(name string) []byte {
	if v.Choice(name+"Empty", 2) == 1 {
		return []byte{}
	}
	return v.Bytes(name, 1)
}

var vrfRolesC13 = []PeerRoleType{Voter, Learner, Leader, Follower}

// vrfRuleC13: symbolic range; role among the first nRoles of {voter, learner, leader, follower};
// override on/off when allowOverride; index = idx.
func vrfRuleC13(group, id string, nRoles int, allowOverride bool, idx int) *Rule {
	start, end := vrfKeyC13("start"), vrfKeyC13("end")
	r := &Rule{GroupID: group, ID: id, StartKeyHex: hex.EncodeToString(start), EndKeyHex: hex.EncodeToString(end),
		Role: vrfRolesC13[v.Choice("role", nRoles)], Count: 1, Index: idx}
	if allowOverride {
		r.Override = v.Choice("override", 2) == 1
	}
	return r
}

type vrfRuleView struct {
	group, id     string
	index         int
	override      bool
	start, end    []byte
	role          PeerRoleType
	count         int
	groupIndex    int
	groupOverride bool
}

func vrfViews(m *RuleManager) []vrfRuleView {
	var out []vrfRuleView
	for _, r := range m.GetAllRules() {
		vw := vrfRuleView{group: r.GroupID, id: r.ID, index: r.Index, override: r.Override, start: r.StartKey, end: r.EndKey, role: r.Role, count: r.Count}
		if g := m.GetRuleGroup(r.GroupID); g != nil {
			vw.groupIndex, vw.groupOverride = g.Index, g.Override
		}
		out = append(out, vw)
	}
	return out
}

func vrfSameViews(a, b []vrfRuleView) bool {
	if len(a) != len(b) {
		return false
	}
	for i := range a {
		x, y := a[i], b[i]
		if x.group != y.group || x.id != y.id || x.index != y.index || x.override != y.override || x.role != y.role || x.count != y.count ||
			x.groupIndex != y.groupIndex || x.groupOverride != y.groupOverride ||
			!v.ConcreteBool(v.BytesEq(x.start, y.start)) || !v.ConcreteBool(v.BytesEq(x.end, y.end)) {
			return false
		}
	}
	return true
}

// spec order: group index, group id, rule index, rule id
func vrfBefore(a, b vrfRuleView) bool {
	if a.groupIndex != b.groupIndex {
		return a.groupIndex < b.groupIndex
	}
	if a.group != b.group {
		return a.group < b.group
	}
	if a.index != b.index {
		return a.index < b.index
	}
	return a.id < b.id
}

func vrfContainsKey(r vrfRuleView, key []byte) bool {
	return !vLessK(key, r.start) && (len(r.end) == 0 || vLessK(key, r.end))
}

// VerifC13Update: default rule plus an optional extra rule, then one update with a
// storage fault at none or one of its writes; a symbolic probe key.
func VerifC13Update() {
	fkv := &kv.VerifFaultKV{Base: kv.NewMemoryKV()}
	storage := core.NewStorage(fkv)
	m := NewRuleManager(storage, nil)
	if err := m.Initialize(3, nil); err != nil {
		v.Assume(false)
	}
	withFaults := v.Param("faults", 1) == 1
	hasExtra := withFaults || v.Choice("hasExtraRule", 2) == 1
	var r1 *Rule
	if hasExtra {
		if withFaults {
			r1 = vrfRuleC13("g", "r1", 1, false, 0)
		} else {
			r1 = vrfRuleC13([]string{"pd", "g"}[v.Choice("extraGroup", 2)], "r1", 2, true, 0)
		}
		if err := m.SetRule(r1); err != nil {
			return // the pre-state must be a served configuration
		}
	}
	before := vrfViews(m)
	q := vrfKeyC13("probe")
	var beforeIDs []string
	for _, r := range m.GetRulesByKey(q) {
		beforeIDs = append(beforeIDs, r.GroupID+"/"+r.ID)
	}
	faultAt := -1
	if withFaults {
		faultAt = v.Choice("faultAtWrite", 3) - 1
	}
	k := 0
	fkv.FailWrite = func(op, key string) bool { k++; return k-1 == faultAt }
	op := v.Choice("op", 6)
	var update func() error
	switch op {
	case 0:
		var r2 *Rule
		if withFaults {
			r2 = vrfRuleC13("pd", "r2", 2, false, 1)
		} else {
			r2 = vrfRuleC13([]string{"pd", "g"}[v.Choice("newGroup", 2)], "r2", 3, true, 1)
		}
		update = func() error { cp := *r2; return m.SetRule(&cp) }
	case 1:
		update = func() error { return m.DeleteRule("pd", "default") }
	case 2:
		if !hasExtra {
			return
		}
		g := before[0].group
		for _, b := range before {
			if b.id == "r1" {
				g = b.group
			}
		}
		update = func() error { return m.DeleteRule(g, "r1") }
	case 3:
		r2 := vrfRuleC13("pd", "r2", 2, !withFaults, 1)
		update = func() error {
			cp := *r2
			return m.Batch([]RuleOp{{Rule: &cp, Action: RuleOpAdd}, {Rule: &Rule{GroupID: "pd", ID: "default"}, Action: RuleOpDel}})
		}
	case 4:
		grp := &RuleGroup{ID: "g", Index: v.Choice("groupIndex", 2), Override: v.Choice("groupOverride", 2) == 1}
		update = func() error { cp := *grp; return m.SetRuleGroup(&cp) }
	case 5:
		// the extra rule is set again (same group, id and range) with role and override chosen afresh:
		// an unchanged rule is a no-op, one that differs in a single field is a real update
		if !hasExtra {
			return
		}
		again := *r1
		again.Role = vrfRolesC13[v.Choice("againRole", 2)]
		again.Override = v.Choice("againOverride", 2) == 1
		update = func() error { cp := again; return m.SetRule(&cp) }
	}
	err := update()
	fkv.FailWrite = nil
	v.Observe("op", op)
	v.Observe("err", err)
	after := vrfViews(m)
	if err != nil {
		// rejected (invalid result) or failed (storage): nothing observable changed
		v.Assert("rejected-update-keeps-rules", vrfSameViews(before, after))
		var afterIDs []string
		for _, r := range m.GetRulesByKey(q) {
			afterIDs = append(afterIDs, r.GroupID+"/"+r.ID)
		}
		same := len(afterIDs) == len(beforeIDs)
		if same {
			for i := range afterIDs {
				same = same && afterIDs[i] == beforeIDs[i]
			}
		}
		v.Assert("rejected-update-keeps-key-index", same)
		if faultAt >= 0 && k > faultAt {
			// storage failure in the middle: retrying without a fault converges (storage == served)
			if err2 := update(); err2 == nil {
				m2 := NewRuleManager(storage, nil)
				v.Assert("retry-then-restart-loads", m2.Initialize(3, nil) == nil)
				v.Assert("retry-converges", vrfSameViews(vrfViews(m), vrfViews(m2)))
				v.Reach("retried")
			}
		}
		v.Reach("rejected")
		v.Reach("end")
		return
	}
	// accepted: the probe key has exactly the configured rules whose range contains it, in the documented order
	var want []vrfRuleView
	for _, r := range after {
		if vrfContainsKey(r, q) {
			want = append(want, r)
		}
	}
	for i := 1; i < len(want); i++ {
		for j := i; j > 0 && vrfBefore(want[j], want[j-1]); j-- {
			want[j], want[j-1] = want[j-1], want[j]
		}
	}
	got := m.GetRulesByKey(q)
	v.Assert("key-has-rules", len(got) > 0)
	v.Assert("rules-by-key-count", len(got) == len(want))
	if len(got) == len(want) {
		for i := range want {
			v.Assert("rules-by-key-order", got[i].GroupID == want[i].group && got[i].ID == want[i].id)
			// ... and they are the configured rules, not an earlier or a rejected version of them
			v.Assert("rules-by-key-content", got[i].Override == want[i].override && got[i].Role == want[i].role &&
				got[i].Index == want[i].index && got[i].Count == want[i].count &&
				v.ConcreteBool(v.BytesEq(got[i].StartKey, want[i].start)) && v.ConcreteBool(v.BytesEq(got[i].EndKey, want[i].end)))
		}
	}
	// the smallest region at the key is given the configured rules of its segment after rule and group override
	var exp []vrfRuleView
	for _, r := range want {
		if r.groupOverride {
			for _, e := range exp {
				if e.group != r.group {
					exp = nil // a group with override drops every group ordered before it
					break
				}
			}
		}
		if r.override {
			kept := exp[:0:0]
			for _, e := range exp {
				if e.group != r.group {
					kept = append(kept, e)
				}
			}
			exp = kept // a rule with override drops the rules of its group ordered before it
		}
		exp = append(exp, r)
	}
	applied := m.GetRulesForApplyRegion(core.NewRegionInfo(vrfPointRegion(q), nil))
	v.Assert("apply-rules-count", len(applied) == len(exp))
	if len(applied) == len(exp) {
		for i := range exp {
			v.Assert("apply-rules-after-override", applied[i].GroupID == exp[i].group && applied[i].ID == exp[i].id &&
				applied[i].Override == exp[i].override && applied[i].Role == exp[i].role)
		}
	}
	// valid rule set after override: at least one leader/voter, at most one leader
	leaders, voters := 0, 0
	for _, r := range applied {
		if r.Role == Leader {
			leaders += r.Count
		} else if r.Role == Voter {
			voters += r.Count
		}
	}
	v.Assert("key-has-valid-rule-set", leaders <= 1 && leaders+voters >= 1)
	// a restarted PD loads exactly what is being served (when no write failed)
	if faultAt < 0 || k <= faultAt {
		m2 := NewRuleManager(storage, nil)
		v.Assert("restart-loads", m2.Initialize(3, nil) == nil)
		v.Assert("restart-equals-served", vrfSameViews(after, vrfViews(m2)))
	}
	v.Reach("accepted")
	v.Reach("end")
}

// vrfPointRegion: the smallest region starting at key q ([q, q+"\x00")).
func vrfPointRegion(q []byte) *metapb.Region {
	end := append(append([]byte{}, q...), 0)
	return &metapb.Region{Id: 1, StartKey: q, EndKey: end}
}

// VerifC13LoadRepair: what a restart loads when storage holds, besides the default rule, a rule stored under a
// key that is not its own store key: the rule is served, it is stored again under its own key, the
// mismatching entry is gone, and a second restart serves
// the same rules.
func VerifC13LoadRepair() {
	storage := core.NewStorage(kv.NewMemoryKV())
	m := NewRuleManager(storage, nil)
	if err := m.Initialize(3, nil); err != nil {
		v.Assume(false)
	}
	r := &Rule{GroupID: "g", ID: "moved", Role: Voter, Count: 1, StartKeyHex: "", EndKeyHex: ""}
	wrongKey := "g-stale-key"
	if err := storage.SaveRule(wrongKey, r); err != nil {
		v.Assume(false)
	}
	// (unparsable entries are outside: the json codec model does not decode across types)
	m2 := NewRuleManager(storage, nil)
	v.Assert("restart-loads", m2.Initialize(3, nil) == nil)
	got := m2.GetRule("g", "moved")
	v.Assert("rule-under-a-mismatching-key-is-served", got != nil && got.Count == 1)
	keys := map[string]bool{}
	_ = storage.LoadRules(func(k, _ string) { keys[k] = true })
	v.Assert("mismatching-key-removed", !keys[wrongKey])
	if got != nil {
		v.Assert("rule-stored-under-its-own-key", keys[got.StoreKey()])
	}
	v.Assert("default-rule-kept", m2.GetRule("pd", "default") != nil)
	m3 := NewRuleManager(storage, nil)
	v.Assert("second-restart-loads", m3.Initialize(3, nil) == nil)
	v.Assert("second-restart-serves-the-same-rules", len(m3.GetAllRules()) == len(m2.GetAllRules()) && m3.GetRule("g", "moved") != nil)
	v.Reach("end")
}
