package election

import (
	"time"

	v "github.com/tikv/pd/pkg/zzvrf"
	"github.com/tikv/pd/pkg/zzvrf/vetcd"
	"go.etcd.io/etcd/clientv3"
)

const (
	vrfLeaderKey  = "/pd/1/leader"
	vrfGuardedKey = "/pd/1/guarded"
)

type vrfContender struct {
	ls      *Leadership
	value   string
	won     bool // holds the record according to the ghost state
	resigned bool
}

// VerifC03Events: two contenders over one etcd model; a sequence of k events
// chosen among campaign / etcd-side lease expiry (only once the local expiry
// instant has passed: zero clock drift between member and etcd is assumed) /
// resign / leader-key deletion / guarded write / local check.
func VerifC03Events() {
	k := v.Param("events", 4)
	s := vetcd.New()
	cs := []*vrfContender{
		{ls: NewLeadership(s.Client(), vrfLeaderKey, "A"), value: "member-A"},
		{ls: NewLeadership(s.Client(), vrfLeaderKey, "B"), value: "member-B"},
	}
	guardedWrites := 0
	for step := 0; step < k; step++ {
		i := v.Choice("who", 2)
		c := cs[i]
		other := cs[1-i]
		switch v.Choice("event", 6) {
		case 0: // campaign (a member campaigns only while it does not hold the record: leaderLoop)
			if c.won {
				continue
			}
			existed := s.Has(vrfLeaderKey)
			err := c.ls.Campaign(int64(v.IntRange("ttl", 1, 5)), c.value)
			if err == nil {
				v.Assert("campaign-succeeds-only-without-live-record", !existed)
				v.Assert("campaign-installs-own-record", string(s.Value(vrfLeaderKey)) == c.value)
				v.Assert("record-bound-to-own-lease", s.LeaseOf(vrfLeaderKey) == c.ls.getLease().ID)
				c.won, c.resigned = true, false
				v.Assert("at-most-one-holder", !other.won)
				v.Reach("campaign-won")
			} else {
				if existed {
					v.Assert("failed-campaign-leaves-record", s.Has(vrfLeaderKey))
				}
				// (a member that already holds the record keeps it in etcd; its new lease object is closed)
				c.won = s.Has(vrfLeaderKey) && string(s.Value(vrfLeaderKey)) == c.value
			}
		case 1: // etcd-side expiry of c's lease, not before the local expiry instant
			l := c.ls.getLease()
			if l == nil || !s.LeaseAlive(l.ID) {
				continue
			}
			now := time.Now()
			exp := VerifExpireTime(c.ls)
			v.Assume(now.After(exp)) // zero drift: etcd expires the lease only after grant + TTL
			s.ExpireLease(l.ID)
			if c.won {
				v.Assert("expiry-removes-record", !s.Has(vrfLeaderKey))
			}
			c.won = false
			v.Assert("expired-member-fails-local-check", !c.ls.Check())
			v.Reach("expired")
		case 2: // resign
			c.ls.Reset()
			if c.ls.getLease() != nil {
				v.Assert("resigned-member-fails-local-check", !c.ls.Check())
				if c.won {
					v.Assert("resign-removes-record", !s.Has(vrfLeaderKey))
				}
				c.won, c.resigned = false, true
			}
		case 3: // delete the leader key (by whoever holds the object)
			if c.ls.getLease() == nil {
				continue
			}
			err := c.ls.DeleteLeaderKey()
			if err == nil {
				v.Assert("deleted", !s.Has(vrfLeaderKey))
				cs[0].won, cs[1].won = false, false
			}
		case 4: // leader-guarded write
			before := string(s.Value(vrfGuardedKey))
			owner := s.Has(vrfLeaderKey) && string(s.Value(vrfLeaderKey)) == c.value
			guardedWrites++
			val := c.value + "-write"
			resp, err := c.ls.LeaderTxn().Then(clientv3.OpPut(vrfGuardedKey, val)).Commit()
			ok := err == nil && resp.Succeeded
			v.Assert("guarded-write-succeeds-iff-owner-of-record", ok == owner)
			if !ok {
				v.Assert("rejected-write-changes-nothing", string(s.Value(vrfGuardedKey)) == before)
			}
			if ok {
				v.Reach("guarded-write-ok")
			} else {
				v.Reach("guarded-write-rejected")
			}
		case 5: // local check: whoever passes it must not have resigned
			if c.ls.Check() {
				v.Assert("check-implies-not-resigned", !c.resigned)
			}
		}
		// ghost consistency: the record (if any) belongs to the contender marked as holder
		if s.Has(vrfLeaderKey) {
			val := string(s.Value(vrfLeaderKey))
			v.Assert("record-belongs-to-ghost-holder", (val == cs[0].value && cs[0].won) || (val == cs[1].value && cs[1].won))
		}
	}
	v.Reach("end")
}
