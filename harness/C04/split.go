package cluster

import (
	"github.com/pingcap/kvproto/pkg/metapb"
	"github.com/pingcap/kvproto/pkg/pdpb"
	v "github.com/tikv/pd/pkg/zzvrf"
	"github.com/tikv/pd/pkg/zzvrf/vetcd"
	"github.com/tikv/pd/pkg/typeutil"
	"github.com/tikv/pd/server/core"
	"github.com/tikv/pd/server/id"
	"github.com/tikv/pd/server/versioninfo"
)

// VerifC04Split: the ids handed out for a region split (new region ids and new peer ids, single and batch
// split) come from the real id allocator over etcd whose persisted end is arbitrary: they are pairwise
// different, non-zero and above everything persisted as allocated before.
func VerifC04Split() {
	w := vrfNewCluster()
	rc := w.rc
	// a cluster version without the region-merge feature: the merge checker (part of the coordinator, which
	// is not started here) is then not consulted
	rc.opt.SetClusterVersion(versioninfo.MinSupportedVersion(versioninfo.Base))
	s := vetcd.New()
	s.SetRaw("/pd/7/leader", []byte("member-1"))
	E := v.Uint64("storedEnd")
	v.Assume(E < 1<<62)
	if v.Choice("hasStoredEnd", 2) == 1 {
		s.SetRaw("/pd/7/alloc_id", typeutil.Uint64ToBytes(E))
	} else {
		E = 0
	}
	rc.id = id.NewAllocator(s.Client(), "/pd/7", "member-1")
	npeers := 1 + v.Choice("npeers", 3)
	meta := &metapb.Region{Id: 1, RegionEpoch: &metapb.RegionEpoch{Version: 1, ConfVer: 1}}
	for i := 1; i <= npeers; i++ {
		meta.Peers = append(meta.Peers, &metapb.Peer{Id: uint64(10 + i), StoreId: uint64(i)})
	}
	rc.core.PutRegion(core.NewRegionInfo(meta, meta.Peers[0]))
	var ids []uint64
	if v.Choice("batch", 2) == 0 {
		resp, err := rc.HandleAskSplit(&pdpb.AskSplitRequest{Region: meta})
		if err != nil {
			v.Reach("error")
			return
		}
		ids = append(ids, resp.GetNewRegionId())
		ids = append(ids, resp.GetNewPeerIds()...)
		v.Assert("one-peer-id-per-peer", len(resp.GetNewPeerIds()) == npeers)
	} else {
		n := 1 + v.Choice("splitCount", 2)
		resp, err := rc.HandleAskBatchSplit(&pdpb.AskBatchSplitRequest{Region: meta, SplitCount: uint32(n)})
		if err != nil {
			v.Reach("error")
			return
		}
		v.Assert("one-id-set-per-new-region", len(resp.GetIds()) == n)
		for _, sid := range resp.GetIds() {
			ids = append(ids, sid.GetNewRegionId())
			ids = append(ids, sid.GetNewPeerIds()...)
			v.Assert("one-peer-id-per-peer", len(sid.GetNewPeerIds()) == npeers)
		}
	}
	for i := range ids {
		v.Assert("split-id-non-zero", ids[i] != 0)
		v.Assert("split-id-above-everything-allocated-before", ids[i] > E)
		for j := i + 1; j < len(ids); j++ {
			v.Assert("split-ids-pairwise-different", ids[i] != ids[j])
		}
	}
	v.Reach("end")
}
