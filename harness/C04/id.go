package id

import (
	v "github.com/tikv/pd/pkg/zzvrf"
	"github.com/tikv/pd/pkg/zzvrf/vetcd"
	"github.com/tikv/pd/pkg/typeutil"
)

const (
	vrfRoot     = "/pd/1"
	vrfKey      = "/pd/1/alloc_id"
	vrfLeadKey  = "/pd/1/leader"
	vrfBoundTop = uint64(1) << 63 // stated bound: the stored end stays below 2^63 (the +1000 wrap at 2^64 is outside the claim)
)

type vrfWorld struct {
	store *vetcd.Store
	a, b  *allocatorImpl
}

func vrfStored(s *vetcd.Store) uint64 {
	if !s.Has(vrfKey) {
		return 0
	}
	e, _ := typeutil.BytesToUint64(s.Value(vrfKey))
	return e
}

func vrfInWindow(x uint64, al *allocatorImpl) bool { return v.And(x > al.base, x <= al.end) }

// vrfInv is the representation invariant of (store, instances, one arbitrary
// previously granted id g): every live window lies below the stored bound,
// live windows are disjoint, and g is below the bound and in no live window.
func vrfInv(w *vrfWorld, g uint64) bool {
	e := vrfStored(w.store)
	a, b := w.a, w.b
	return v.And(
		a.base <= a.end, b.base <= b.end,
		a.end <= e, b.end <= e,
		v.Or(a.end <= b.base, b.end <= a.base, a.base == a.end, b.base == b.end),
		g >= 1, g <= e,
		v.Not(vrfInWindow(g, a)), v.Not(vrfInWindow(g, b)),
	)
}

// vrfArbitrary builds two allocator instances "A" and "B" on one store in an
// arbitrary state: stored bound E (or no key), leader record A / B / other / absent.
func vrfArbitrary() (*vrfWorld, uint64) {
	s := vetcd.New()
	c := s.Client()
	w := &vrfWorld{store: s}
	w.a = NewAllocator(c, vrfRoot, "A").(*allocatorImpl)
	w.b = NewAllocator(c, vrfRoot, "B").(*allocatorImpl)
	if v.Choice("hasKey", 2) == 1 {
		e := v.Uint64("E")
		v.Assume(e <= vrfBoundTop)
		s.SetRaw(vrfKey, typeutil.Uint64ToBytes(e))
	}
	switch v.Choice("leader", 4) {
	case 0:
		s.SetRaw(vrfLeadKey, []byte("A"))
	case 1:
		s.SetRaw(vrfLeadKey, []byte("B"))
	case 2:
		s.SetRaw(vrfLeadKey, []byte("C"))
	}
	w.a.base, w.a.end = v.Uint64("baseA"), v.Uint64("endA")
	w.b.base, w.b.end = v.Uint64("baseB"), v.Uint64("endB")
	g := v.Uint64("granted")
	v.Assume(vrfInv(w, g))
	return w, g
}

func vrfLeaderIs(s *vetcd.Store, m string) bool {
	return s.Has(vrfLeadKey) && string(s.Value(vrfLeadKey)) == m
}

// VerifC04Step: one Alloc or Rebase on instance A from an arbitrary state
// satisfying the invariant, with at most one storage fault and, between A's
// read of the bound and its transaction, an optional complete window extension
// by instance B followed by an arbitrary leader change (the interleaving at the
// granularity of single etcd operations).
func VerifC04Step() {
	w, g := vrfArbitrary()
	s := w.store
	a, b := w.a, w.b
	e0 := vrfStored(s)
	base0, end0 := a.base, a.end
	faults := v.Param("faults", 1)
	interfered := false
	ops := 0
	s.FaultFn = func(op string) int {
		ops++
		if op == "txn" && !interfered && v.Param("interfere", 1) == 1 && v.Choice("interfere", 2) == 1 {
			// environment step: B (leader at that moment) extends the window, then leadership moves
			interfered = true
			hook := s.FaultFn
			s.FaultFn = nil
			s.SetRaw(vrfLeadKey, []byte("B"))
			_ = b.Rebase()
			switch v.Choice("leaderAfter", 3) {
			case 0:
				s.SetRaw(vrfLeadKey, []byte("A"))
			case 1:
				s.DeleteRaw(vrfLeadKey)
			}
			s.FaultFn = hook
		}
		if faults > 0 {
			k := v.Choice("fault", 3)
			if k != 0 {
				faults--
			}
			return k
		}
		return vetcd.FaultNone
	}
	isAlloc := v.Choice("op", 2) == 0
	leaderAtStart := vrfLeaderIs(s, "A")
	var x uint64
	var err error
	if isAlloc {
		x, err = a.Alloc()
	} else {
		err = a.Rebase()
	}
	s.FaultFn = nil
	e1 := vrfStored(s)
	v.Assert("stored-bound-monotone", e1 >= e0)
	if err != nil {
		v.Assert("failed-op-keeps-window", v.And(a.base == base0, a.end == end0))
		v.Reach("failed")
	} else {
		if isAlloc {
			v.Assert("id-not-granted-before", x != g)
			v.Assert("id-increases-within-instance", x > base0)
			v.Assert("id-below-stored-bound", x <= e1)
			v.Assert("id-not-in-other-window", v.Not(vrfInWindow(x, b)))
			v.Assert("id-left-own-window", v.Not(vrfInWindow(x, a)))
			v.Assert("id-at-least-1", x >= 1)
			v.Reach("alloc-ok")
		} else {
			v.Reach("rebase-ok")
		}
	}
	if !leaderAtStart && !interfered {
		// not the recorded leader during the whole call: the window cannot have been extended
		v.Assert("non-leader-cannot-extend", v.And(a.end == end0, e1 == e0))
	}
	v.Assert("invariant-preserved", vrfInv(w, g))
	v.Reach("end")
}

// VerifC04Fresh: the invariant holds for freshly created instances on any store
// (a crash / restart drops the instance and creates a new one).
func VerifC04Fresh() {
	w, g := vrfArbitrary()
	w.a = NewAllocator(w.store.Client(), vrfRoot, "A").(*allocatorImpl)
	v.Assert("fresh-instance-invariant", vrfInv(w, g))
	id, err := w.a.Alloc()
	if err == nil {
		v.Assert("fresh-first-id-new", id != g)
		v.Assert("fresh-first-id-outside-b", v.Not(vrfInWindow(id, w.b)))
	}
	v.Reach("end")
}
