package server

import (
	v "github.com/tikv/pd/pkg/zzvrf"
	"github.com/tikv/pd/server/cluster"
	"github.com/tikv/pd/server/config"
	"github.com/tikv/pd/server/core"
	"github.com/tikv/pd/server/kv"
	"github.com/tikv/pd/server/schedule/placement"
)

type vrfCfgWorld struct {
	*vrfServerWorld
	fkv *kv.VerifFaultKV
}

func vrfConfigServer() *vrfCfgWorld {
	fkv := &kv.VerifFaultKV{Base: kv.NewMemoryKV()}
	w := &vrfCfgWorld{vrfServerWorld: vrfNewServer(fkv), fkv: fkv}
	for _, d := range config.DefaultSchedulers {
		config.RegisterScheduler(d.Type)
	}
	cfg := &config.Config{}
	_ = cfg.Adjust(nil, false) // documented defaults
	w.s.persistOptions = config.NewPersistOptions(cfg)
	if err := w.s.persistOptions.Persist(w.s.storage); err != nil {
		v.Assume(false)
	}
	return w
}

func (w *vrfCfgWorld) failNextWrite(on bool) {
	w.fkv.FailWrite = func(op, key string) bool { return on }
}

// reload: what a newly elected leader loads
func (w *vrfCfgWorld) reload() *config.PersistOptions {
	o := config.NewPersistOptions(&config.Config{})
	if err := o.Reload(core.NewStorage(w.fkv.Base)); err != nil {
		v.Assert("reload-ok", false)
	}
	return o
}

func sameSchedule(a, b *config.ScheduleConfig) bool {
	return v.And(a.LowSpaceRatio == b.LowSpaceRatio, a.HighSpaceRatio == b.HighSpaceRatio, a.TolerantSizeRatio == b.TolerantSizeRatio,
		a.MaxSnapshotCount == b.MaxSnapshotCount, a.LeaderScheduleLimit == b.LeaderScheduleLimit, len(a.Schedulers) == len(b.Schedulers))
}

// VerifC18Schedule: SetScheduleConfig with symbolic (non-NaN) ratios, an optional
// unregistered scheduler type and a storage fault switch.
func VerifC18Schedule() {
	w := vrfConfigServer()
	s := w.s
	before := *s.persistOptions.GetScheduleConfig()
	cfg := *s.persistOptions.GetScheduleConfig().Clone()
	cfg.LowSpaceRatio = v.Float64("lowSpaceRatio")
	cfg.HighSpaceRatio = v.Float64("highSpaceRatio")
	cfg.TolerantSizeRatio = v.Float64("tolerantSizeRatio")
	// configuration arrives as JSON, which cannot carry NaN
	v.Assume(v.And(cfg.LowSpaceRatio == cfg.LowSpaceRatio, cfg.HighSpaceRatio == cfg.HighSpaceRatio, cfg.TolerantSizeRatio == cfg.TolerantSizeRatio))
	cfg.MaxSnapshotCount = v.Uint64("maxSnapshotCount")
	if len(cfg.Schedulers) > 0 && v.Choice("disableADefaultScheduler", 2) == 1 {
		cfg.Schedulers[0].Disable = true // what `scheduler remove <default>` records
	}
	badScheduler := v.Choice("unregisteredScheduler", 2) == 1
	if badScheduler {
		cfg.Schedulers = append(cfg.Schedulers, config.SchedulerConfig{Type: "no-such-scheduler"})
	}
	fault := v.Choice("storageFault", 2) == 1
	w.failNextWrite(fault)
	err := s.SetScheduleConfig(cfg)
	w.failNextWrite(false)
	v.Observe("err", err)
	after := s.persistOptions.GetScheduleConfig()
	if err == nil {
		v.Assert("accepted-no-fault", !fault)
		v.Assert("low-space-in-domain", v.And(after.LowSpaceRatio >= 0, after.LowSpaceRatio <= 1))
		v.Assert("high-space-in-domain", v.And(after.HighSpaceRatio >= 0, after.HighSpaceRatio <= 1))
		v.Assert("low-above-high", after.LowSpaceRatio > after.HighSpaceRatio)
		v.Assert("tolerant-nonnegative", after.TolerantSizeRatio >= 0)
		v.Assert("schedulers-registered", !badScheduler)
		v.Assert("accepted-is-served", v.And(after.LowSpaceRatio == cfg.LowSpaceRatio, after.HighSpaceRatio == cfg.HighSpaceRatio, after.MaxSnapshotCount == cfg.MaxSnapshotCount))
		re := w.reload().GetScheduleConfig()
		v.Assert("reload-equals-served", sameSchedule(after, re))
		if len(after.Schedulers) == len(re.Schedulers) {
			for i := range after.Schedulers {
				v.Assert("reload-keeps-scheduler-entries", after.Schedulers[i].Type == re.Schedulers[i].Type && after.Schedulers[i].Disable == re.Schedulers[i].Disable)
			}
		}
		v.Reach("accepted")
	} else {
		v.Assert("rejected-keeps-served", sameSchedule(&before, after))
		re := w.reload().GetScheduleConfig()
		v.Assert("rejected-keeps-stored", sameSchedule(&before, re))
		v.Reach("rejected")
	}
	v.Reach("end")
}

// VerifC18Misc: replication config (isolation level vs location labels), PD-server
// config (flow-round digit, dashboard address auto/none/explicit member URL),
// cluster version and replication mode, each with a storage fault switch.
func VerifC18Misc() {
	w := vrfConfigServer()
	s := w.s
	fault := v.Choice("storageFault", 2) == 1
	section := v.Choice("section", 4)
	if section == 0 {
		// placement rules are on by default: the replication config is coupled with the default rule
		rm := placement.NewRuleManager(s.storage, nil)
		old := s.persistOptions.GetReplicationConfig()
		if err := rm.Initialize(int(old.MaxReplicas), old.LocationLabels); err != nil {
			v.Assume(false)
		}
		cluster.VerifSetRuleManager(s.cluster, rm)
	} else {
		cluster.VerifSetRunning(s.cluster, false) // mode-manager coupling of a running cluster is C19's subject
	}
	switch section {
	case 0:
		old := *s.persistOptions.GetReplicationConfig()
		cfg := *s.persistOptions.GetReplicationConfig().Clone()
		labels := [][]string{nil, {"zone"}, {"zone", "rack"}}[v.Choice("locationLabels", 3)]
		level := []string{"", "zone", "rack", "host"}[v.Choice("isolationLevel", 4)]
		cfg.LocationLabels, cfg.IsolationLevel = labels, level
		cfg.MaxReplicas = v.Uint64("maxReplicas")
		w.failNextWrite(fault)
		err := s.SetReplicationConfig(cfg)
		w.failNextWrite(false)
		now := s.persistOptions.GetReplicationConfig()
		inLabels := level == ""
		for _, l := range labels {
			if l == level {
				inLabels = true
			}
		}
		if err == nil {
			v.Assert("isolation-level-is-a-location-label", inLabels)
			v.Assert("replication-accepted-no-fault", !fault)
			re := w.reload().GetReplicationConfig()
			v.Assert("replication-reload-equals-served", re.IsolationLevel == now.IsolationLevel && len(re.LocationLabels) == len(now.LocationLabels) && re.MaxReplicas == now.MaxReplicas)
			v.Reach("replication-accepted")
		} else {
			v.Assert("replication-rejected-keeps-served", now.IsolationLevel == old.IsolationLevel && len(now.LocationLabels) == len(old.LocationLabels) && now.MaxReplicas == old.MaxReplicas)
		}
	case 1:
		old := *s.persistOptions.GetPDServerConfig()
		cfg := *s.persistOptions.GetPDServerConfig().Clone()
		cfg.FlowRoundByDigit = v.Int("flowRoundByDigit")
		cfg.DashboardAddress = []string{"auto", "none", "http://pd-1:2379"}[v.Choice("dashboardAddress", 3)]
		w.failNextWrite(fault)
		err := s.SetPDServerConfig(cfg)
		w.failNextWrite(false)
		now := s.persistOptions.GetPDServerConfig()
		if err == nil {
			v.Assert("flow-round-digit-nonnegative", now.FlowRoundByDigit >= 0)
			v.Assert("pdserver-accepted-no-fault", !fault)
			re := w.reload().GetPDServerConfig()
			v.Assert("pdserver-reload-equals-served", re.FlowRoundByDigit == now.FlowRoundByDigit && re.DashboardAddress == now.DashboardAddress)
			v.Reach("pdserver-accepted")
		} else {
			v.Assert("pdserver-rejected-keeps-served", now.FlowRoundByDigit == old.FlowRoundByDigit && now.DashboardAddress == old.DashboardAddress)
		}
	case 2:
		old := s.persistOptions.GetClusterVersion().String()
		ver := []string{"4.0.0", "5.0.0", "not-a-version"}[v.Choice("version", 3)]
		w.failNextWrite(fault)
		err := s.SetClusterVersion(ver)
		w.failNextWrite(false)
		now := s.persistOptions.GetClusterVersion().String()
		if err == nil {
			v.Assert("version-accepted-valid", ver != "not-a-version" && !fault && now == ver)
			v.Assert("version-reload-equals-served", w.reload().GetClusterVersion().String() == now)
		} else {
			v.Assert("version-rejected-keeps-served", now == old)
		}
	case 3:
		old := s.persistOptions.GetReplicationModeConfig().ReplicationMode
		cfg := *s.persistOptions.GetReplicationModeConfig().Clone()
		cfg.ReplicationMode = []string{"majority", "dr-auto-sync", "bogus"}[v.Choice("mode", 3)]
		w.failNextWrite(fault)
		err := s.SetReplicationModeConfig(cfg)
		w.failNextWrite(false)
		now := s.persistOptions.GetReplicationModeConfig().ReplicationMode
		if err == nil {
			v.Assert("mode-accepted-valid", cfg.ReplicationMode != "bogus" && !fault && now == cfg.ReplicationMode)
			v.Assert("mode-reload-equals-served", w.reload().GetReplicationModeConfig().ReplicationMode == now)
		} else {
			v.Assert("mode-rejected-keeps-served", now == old)
		}
	}
	v.Reach("end")
}

func vrfLabelView(c config.LabelPropertyConfig) []string {
	var out []string
	for _, typ := range []string{"reject-leader", "other"} {
		for _, l := range c[typ] {
			out = append(out, typ+"/"+l.Key+"="+l.Value)
		}
	}
	return out
}

func vrfSameStrings(a, b []string) bool {
	if len(a) != len(b) {
		return false
	}
	for i := range a {
		if a[i] != b[i] {
			return false
		}
	}
	return true
}

// VerifC18LabelProperty: set / delete / replace of label properties on a
// pre-state with 0..2 entries, with a storage fault switch.
func VerifC18LabelProperty() {
	w := vrfConfigServer()
	s := w.s
	vals := []string{"z1", "z2"}
	for _, val := range vals {
		if v.Choice("preExisting", 2) == 1 {
			if err := s.SetLabelProperty("reject-leader", "zone", val); err != nil {
				v.Assume(false)
			}
		}
	}
	before := vrfLabelView(s.persistOptions.GetLabelPropertyConfig())
	fault := v.Choice("storageFault", 2) == 1
	val := vals[v.Choice("value", 2)]
	op := v.Choice("op", 3)
	w.failNextWrite(fault)
	var err error
	switch op {
	case 0:
		err = s.SetLabelProperty("reject-leader", "zone", val)
	case 1:
		err = s.DeleteLabelProperty("reject-leader", "zone", val)
	case 2:
		err = s.SetLabelPropertyConfig(config.LabelPropertyConfig{"other": {{Key: "rack", Value: val}}})
	}
	w.failNextWrite(false)
	v.Observe("op", op)
	v.Observe("err", err)
	after := vrfLabelView(s.persistOptions.GetLabelPropertyConfig())
	if err != nil {
		v.Assert("label-property-failed-update-keeps-served", vrfSameStrings(before, after))
		v.Reach("failed")
	} else {
		v.Assert("label-property-accepted-no-fault", !fault)
		re := vrfLabelView(w.reload().GetLabelPropertyConfig())
		v.Assert("label-property-reload-equals-served", vrfSameStrings(after, re))
		v.Reach("accepted")
	}
	v.Reach("end")
}
