package operator

import (
	"github.com/pingcap/kvproto/pkg/metapb"
	v "github.com/tikv/pd/pkg/zzvrf"
	"github.com/tikv/pd/server/core"
)

// VerifC08Build: for every origin placement (per store: absent / voter / learner,
// one voter is leader) and every requested target placement (per store: absent /
// voter / learner, optional target leader) over n stores and every builder flag
// combination, whenever Build returns an operator its steps are executed one by
// one on the region simulator.
type vrfScenario struct {
	n                          int
	sim                        *simRegion
	target                     map[uint64]*metapb.Peer
	wantLeader                 uint64
	originVoters, targetVoters int
	op                         *Operator
}

// vrfBuildScenario enumerates cluster mode, origin placement, target placement,
// leader choices and builder flags, and runs the real Builder. ok=false when the
// combination is degenerate (no origin voter) or the builder refuses it.
func vrfBuildScenario() (sc *vrfScenario, ok bool) {
	n := v.Param("stores", 3)
	// 0: cluster too old for joint consensus, 1: supported but switched off, 2: supported and used
	mode := v.Choice("jointMode", 3)
	joint := mode >= 1
	tc := vrfCluster(n, joint, mode == 2)
	sim := &simRegion{id: 1, confVer: v.Uint64("confVer"), version: v.Uint64("version")}
	if v.Param("sick", 0) == 1 {
		// one store (or none) is offline: it must not be handed the leader unless the caller forces it
		if off := v.Choice("offlineStore", n+1); off != 0 {
			sim.offline = uint64(off)
			tc.PutStore(tc.GetStore(uint64(off)).Clone(core.OfflineStore(false)))
		}
	}
	v.Assume(sim.confVer < 1<<60)
	originVoters := 0
	for st := 1; st <= n; st++ {
		switch v.Choice("origin", 3) {
		case 1:
			sim.peers = append(sim.peers, &metapb.Peer{Id: uint64(100 + st), StoreId: uint64(st), Role: metapb.PeerRole_Voter})
			originVoters++
		case 2:
			sim.peers = append(sim.peers, &metapb.Peer{Id: uint64(100 + st), StoreId: uint64(st), Role: metapb.PeerRole_Learner})
		}
	}
	if originVoters == 0 {
		return nil, false
	}
	// leader: the k-th voter
	k := v.Choice("leaderIdx", originVoters)
	for _, p := range sim.peers {
		if p.Role == metapb.PeerRole_Voter {
			if k == 0 {
				sim.leader = p.StoreId
			}
			k--
		}
	}
	target := map[uint64]*metapb.Peer{}
	targetVoters := 0
	for st := 1; st <= n; st++ {
		switch v.Choice("target", 3) {
		case 1:
			target[uint64(st)] = &metapb.Peer{StoreId: uint64(st), Role: metapb.PeerRole_Voter}
			targetVoters++
		case 2:
			target[uint64(st)] = &metapb.Peer{StoreId: uint64(st), Role: metapb.PeerRole_Learner}
		}
	}
	// peers that keep store and role keep their id; every other target peer carries id 0
	// (as CreateMoveRegionOperator / the scatterer build their requests)
	for st, p := range target {
		if o := sim.peerOn(st); o != nil && o.Role == p.Role {
			p.Id = o.Id
		}
	}
	region := sim.info()
	b := NewBuilder("verif", tc, region).SetPeers(target)
	wantLeader := uint64(0)
	if targetVoters > 0 && v.Choice("setLeader", 2) == 1 {
		j := v.Choice("targetLeaderIdx", targetVoters)
		for st := 1; st <= n; st++ {
			if p := target[uint64(st)]; p != nil && p.Role == metapb.PeerRole_Voter {
				if j == 0 {
					wantLeader = uint64(st)
				}
				j--
			}
		}
		b.SetLeader(wantLeader)
	}
	if v.Choice("lightWeight", 2) == 1 {
		b.EnableLightWeight()
	}
	if wantLeader != 0 && v.Choice("forceTargetLeader", 2) == 1 {
		b.EnableForceTargetLeader()
	}
	sim.forcedLeader = wantLeader // a leader the caller asked for is the caller's choice
	op, err := b.Build(0)
	if err != nil {
		v.Reach("rejected")
		return nil, false
	}
	v.Reach("built")
	return &vrfScenario{n: n, sim: sim, target: target, wantLeader: wantLeader, originVoters: originVoters, targetVoters: targetVoters, op: op}, true
}

func VerifC08Build() {
	sc, ok := vrfBuildScenario()
	if !ok {
		return
	}
	sim, target, wantLeader, op := sc.sim, sc.target, sc.wantLeader, sc.op
	originVoters, targetVoters := sc.originVoters, sc.targetVoters
	for i := 0; i < op.Len(); i++ {
		v.Observe("step", op.Step(i).String())
	}
	minVoters := originVoters
	if targetVoters < minVoters {
		minVoters = targetVoters
	}
	dipped := false
	for i := 0; i < op.Len(); i++ {
		step := op.Step(i)
		before := sim.info()
		v.Assert("step-precondition-holds", step.CheckSafety(before) == nil)
		if bad := sim.apply(step); bad != "" {
			v.Assert(bad, false)
			return
		}
		after := sim.info()
		v.Assert("step-finished-after", step.IsFinish(after))
		if _, isDemote := step.(DemoteFollower); isDemote && vrfPendingVoterAdd(sim, target) {
			// known finding: without joint consensus a demotion is planned before a pending voter addition
			v.Assert("voter-count-dips-when-demote-precedes-add", sim.voters() >= minVoters)
			dipped = dipped || sim.voters() < minVoters
		} else if dipped && sim.voters() < minVoters {
			// still the same dip: the replacement voter has been added as a learner but is not promoted yet
			v.Assert("voter-count-dips-when-demote-precedes-add", false)
		} else {
			dipped = false
			v.Assert("voter-count-not-below-min", sim.voters() >= minVoters)
		}
		v.Assert("leader-has-a-voting-peer", sim.peerOn(sim.leader) != nil && votes(sim.peerOn(sim.leader).Role))
	}
	// final placement is exactly the request
	v.Assert("final-peer-count", len(sim.peers) == len(target))
	for st, want := range target {
		got := sim.peerOn(st)
		v.Assert("final-peer-present", got != nil)
		if got != nil {
			v.Assert("final-role", got.Role == want.Role)
		}
	}
	if wantLeader != 0 {
		v.Assert("final-leader", sim.leader == wantLeader)
	}
	lp := sim.peerOn(sim.leader)
	v.Assert("final-leader-is-voter", lp != nil && lp.Role == metapb.PeerRole_Voter)
	v.Reach("end")
}

// vrfPendingVoterAdd: the target still has a voter on a store where the region has no peer yet.
func vrfPendingVoterAdd(sim *simRegion, target map[uint64]*metapb.Peer) bool {
	for st, p := range target {
		if p.Role == metapb.PeerRole_Voter && sim.peerOn(st) == nil {
			return true
		}
	}
	return false
}
