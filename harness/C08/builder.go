package operator

import (
	"github.com/pingcap/kvproto/pkg/metapb"
	v "github.com/tikv/pd/pkg/zzvrf"
)

// VerifC08Build: for every origin placement (per store: absent / voter / learner,
// one voter is leader) and every requested target placement (per store: absent /
// voter / learner, optional target leader) over n stores and every builder flag
// combination, whenever Build returns an operator its steps are executed one by
// one on the region simulator.
func VerifC08Build() {
	n := v.Param("stores", 3)
	joint := v.Choice("clusterSupportsJoint", 2) == 1
	tc := vrfCluster(n, joint)
	sim := &simRegion{id: 1, confVer: v.Uint64("confVer"), version: v.Uint64("version")}
	v.Assume(sim.confVer < 1<<60)
	originVoters := 0
	for st := 1; st <= n; st++ {
		switch v.Choice("origin", 3) {
		case 1:
			sim.peers = append(sim.peers, &metapb.Peer{Id: uint64(100 + st), StoreId: uint64(st), Role: metapb.PeerRole_Voter})
			originVoters++
		case 2:
			sim.peers = append(sim.peers, &metapb.Peer{Id: uint64(100 + st), StoreId: uint64(st), Role: metapb.PeerRole_Learner})
		}
	}
	if originVoters == 0 {
		return
	}
	// leader: the k-th voter
	k := v.Choice("leaderIdx", originVoters)
	for _, p := range sim.peers {
		if p.Role == metapb.PeerRole_Voter {
			if k == 0 {
				sim.leader = p.StoreId
			}
			k--
		}
	}
	target := map[uint64]*metapb.Peer{}
	targetVoters := 0
	for st := 1; st <= n; st++ {
		switch v.Choice("target", 3) {
		case 1:
			target[uint64(st)] = &metapb.Peer{StoreId: uint64(st), Role: metapb.PeerRole_Voter}
			targetVoters++
		case 2:
			target[uint64(st)] = &metapb.Peer{StoreId: uint64(st), Role: metapb.PeerRole_Learner}
		}
	}
	// peers that keep store and role keep their id; every other target peer carries id 0
	// (as CreateMoveRegionOperator / the scatterer build their requests)
	for st, p := range target {
		if o := sim.peerOn(st); o != nil && o.Role == p.Role {
			p.Id = o.Id
		}
	}
	region := sim.info()
	b := NewBuilder("verif", tc, region).SetPeers(target)
	wantLeader := uint64(0)
	if targetVoters > 0 && v.Choice("setLeader", 2) == 1 {
		j := v.Choice("targetLeaderIdx", targetVoters)
		for st := 1; st <= n; st++ {
			if p := target[uint64(st)]; p != nil && p.Role == metapb.PeerRole_Voter {
				if j == 0 {
					wantLeader = uint64(st)
				}
				j--
			}
		}
		b.SetLeader(wantLeader)
	}
	if v.Choice("lightWeight", 2) == 1 {
		b.EnableLightWeight()
	}
	if wantLeader != 0 && v.Choice("forceTargetLeader", 2) == 1 {
		b.EnableForceTargetLeader()
	}
	op, err := b.Build(0)
	if err != nil {
		v.Reach("rejected")
		return
	}
	v.Reach("built")
	for i := 0; i < op.Len(); i++ {
		v.Observe("step", op.Step(i).String())
	}
	minVoters := originVoters
	if targetVoters < minVoters {
		minVoters = targetVoters
	}
	startConfVer := sim.confVer
	accounted := uint64(0)
	for i := 0; i < op.Len(); i++ {
		step := op.Step(i)
		before := sim.info()
		v.Assert("step-precondition-holds", step.CheckSafety(before) == nil)
		v.Assert("step-not-finished-before", !step.IsFinish(before))
		v.Assert("step-accounts-nothing-before", step.ConfVerChanged(before) == 0)
		if bad := sim.apply(step); bad != "" {
			v.Assert(bad, false)
			return
		}
		after := sim.info()
		v.Assert("step-finished-after", step.IsFinish(after))
		accounted += step.ConfVerChanged(after)
		v.Assert("conf-ver-accounting-exact", sim.confVer-startConfVer == accounted)
		if _, isDemote := step.(DemoteFollower); isDemote && vrfPendingVoterAdd(sim, target) {
			// known finding: without joint consensus a demotion is planned before a pending voter addition
			v.Assert("voter-count-dips-when-demote-precedes-add", sim.voters() >= minVoters)
		} else {
			v.Assert("voter-count-not-below-min", sim.voters() >= minVoters)
		}
		v.Assert("leader-has-a-voting-peer", sim.peerOn(sim.leader) != nil && votes(sim.peerOn(sim.leader).Role))
	}
	// final placement is exactly the request
	v.Assert("final-peer-count", len(sim.peers) == len(target))
	for st, want := range target {
		got := sim.peerOn(st)
		v.Assert("final-peer-present", got != nil)
		if got != nil {
			v.Assert("final-role", got.Role == want.Role)
		}
	}
	if wantLeader != 0 {
		v.Assert("final-leader", sim.leader == wantLeader)
	}
	lp := sim.peerOn(sim.leader)
	v.Assert("final-leader-is-voter", lp != nil && lp.Role == metapb.PeerRole_Voter)
	v.Reach("end")
}

// vrfPendingVoterAdd: the target still has a voter on a store where the region has no peer yet.
func vrfPendingVoterAdd(sim *simRegion, target map[uint64]*metapb.Peer) bool {
	for st, p := range target {
		if p.Role == metapb.PeerRole_Voter && sim.peerOn(st) == nil {
			return true
		}
	}
	return false
}
