package operator

import (
	"context"
	"time"

	"github.com/pingcap/kvproto/pkg/metapb"
	"github.com/tikv/pd/pkg/mock/mockcluster"
	v "github.com/tikv/pd/pkg/zzvrf"
	"github.com/tikv/pd/server/config"
	"github.com/tikv/pd/server/core"
	"github.com/tikv/pd/server/versioninfo"
)

const vrfNow = int64(1600000000) * int64(time.Second)

// vrfCluster: n up stores (ids 1..n) on real BasicCluster / PersistOptions via mockcluster.
func vrfCluster(n int, joint bool, useJoint ...bool) *mockcluster.Cluster {
	v.FixClock(vrfNow) // store health is not the subject here: all stores heartbeat "now"
	cfg := &config.Config{}
	cfg.Replication.MaxReplicas = 3
	cfg.Schedule.StoreLimit = map[uint64]config.StoreLimitConfig{}
	cfg.Schedule.MaxStoreDownTime.Duration = 30 * time.Minute
	cfg.Schedule.EnableJointConsensus = len(useJoint) > 0 && useJoint[0]
	cfg.ClusterVersion = *versioninfo.MinSupportedVersion(versioninfo.JointConsensus)
	tc := mockcluster.NewCluster(context.Background(), config.NewPersistOptions(cfg))
	if !joint {
		tc.DisableFeature(versioninfo.JointConsensus)
	}
	for i := 1; i <= n; i++ {
		tc.PutStore(core.NewStoreInfo(&metapb.Store{Id: uint64(i), State: metapb.StoreState_Up},
			core.SetLastHeartbeatTS(time.Unix(0, vrfNow))))
	}
	return tc
}

// simRegion is a faithful model of how a TiKV region applies configuration changes.
type simRegion struct {
	id      uint64
	peers   []*metapb.Peer // one per store at most
	leader  uint64         // store id
	confVer uint64
	version uint64
	// offline: a store that is Offline (0 = none); forcedLeader: the target leader the caller asked for (0 = none)
	offline      uint64
	forcedLeader uint64
}

func (s *simRegion) peerOn(store uint64) *metapb.Peer {
	for _, p := range s.peers {
		if p.StoreId == store {
			return p
		}
	}
	return nil
}

func (s *simRegion) info() *core.RegionInfo {
	meta := &metapb.Region{Id: s.id, RegionEpoch: &metapb.RegionEpoch{ConfVer: s.confVer, Version: s.version}}
	for _, p := range s.peers {
		cp := *p
		meta.Peers = append(meta.Peers, &cp)
	}
	var leader *metapb.Peer
	for _, p := range meta.Peers {
		if p.StoreId == s.leader {
			leader = p
		}
	}
	return core.NewRegionInfo(meta, leader)
}

func votes(r metapb.PeerRole) bool {
	return r == metapb.PeerRole_Voter || r == metapb.PeerRole_IncomingVoter || r == metapb.PeerRole_DemotingVoter
}

func (s *simRegion) voters() int {
	n := 0
	for _, p := range s.peers {
		if votes(p.Role) {
			n++
		}
	}
	return n
}

func (s *simRegion) remove(store uint64) {
	var out []*metapb.Peer
	for _, p := range s.peers {
		if p.StoreId != store {
			out = append(out, p)
		}
	}
	s.peers = out
}

// apply executes one step the way the store would and reports a violated
// expectation of the property (empty string = fine).
func (s *simRegion) apply(step OpStep) string {
	switch st := step.(type) {
	case TransferLeader:
		p := s.peerOn(st.ToStore)
		if p == nil {
			return "transfer-leader-to-absent-peer"
		}
		if p.Role != metapb.PeerRole_Voter && p.Role != metapb.PeerRole_IncomingVoter {
			return "transfer-leader-to-learner-or-demoting-peer"
		}
		if st.ToStore == s.offline && st.ToStore != s.forcedLeader {
			return "transfer-leader-to-an-offline-store"
		}
		s.leader = st.ToStore
	case AddPeer:
		if s.peerOn(st.ToStore) != nil {
			return "two-peers-on-one-store"
		}
		s.peers = append(s.peers, &metapb.Peer{Id: st.PeerID, StoreId: st.ToStore, Role: metapb.PeerRole_Voter})
		s.confVer++
	case AddLightPeer:
		if s.peerOn(st.ToStore) != nil {
			return "two-peers-on-one-store"
		}
		s.peers = append(s.peers, &metapb.Peer{Id: st.PeerID, StoreId: st.ToStore, Role: metapb.PeerRole_Voter})
		s.confVer++
	case AddLearner:
		if s.peerOn(st.ToStore) != nil {
			return "two-peers-on-one-store"
		}
		s.peers = append(s.peers, &metapb.Peer{Id: st.PeerID, StoreId: st.ToStore, Role: metapb.PeerRole_Learner})
		s.confVer++
	case AddLightLearner:
		if s.peerOn(st.ToStore) != nil {
			return "two-peers-on-one-store"
		}
		s.peers = append(s.peers, &metapb.Peer{Id: st.PeerID, StoreId: st.ToStore, Role: metapb.PeerRole_Learner})
		s.confVer++
	case PromoteLearner:
		p := s.peerOn(st.ToStore)
		if p == nil || p.Role != metapb.PeerRole_Learner {
			return "promote-of-non-learner"
		}
		p.Role = metapb.PeerRole_Voter
		s.confVer++
	case DemoteFollower:
		p := s.peerOn(st.ToStore)
		if p == nil || p.Role != metapb.PeerRole_Voter {
			return "demote-of-non-voter"
		}
		if s.leader == st.ToStore {
			return "leader-demoted"
		}
		p.Role = metapb.PeerRole_Learner
		s.confVer++
	case RemovePeer:
		if s.peerOn(st.FromStore) == nil {
			return "remove-of-absent-peer"
		}
		if s.leader == st.FromStore {
			return "leader-removed"
		}
		s.remove(st.FromStore)
		s.confVer++
	case ChangePeerV2Enter:
		for _, pl := range st.PromoteLearners {
			p := s.peerOn(pl.ToStore)
			if p == nil || p.Role != metapb.PeerRole_Learner {
				return "joint-promote-of-non-learner"
			}
			p.Role = metapb.PeerRole_IncomingVoter
		}
		for _, dv := range st.DemoteVoters {
			p := s.peerOn(dv.ToStore)
			if p == nil || p.Role != metapb.PeerRole_Voter {
				return "joint-demote-of-non-voter"
			}
			p.Role = metapb.PeerRole_DemotingVoter
		}
		s.confVer += uint64(len(st.PromoteLearners) + len(st.DemoteVoters))
	case ChangePeerV2Leave:
		if lp := s.peerOn(s.leader); lp != nil && lp.Role == metapb.PeerRole_DemotingVoter {
			return "left-joint-state-while-leader-is-demoting"
		}
		n := 0
		for _, p := range s.peers {
			switch p.Role {
			case metapb.PeerRole_IncomingVoter:
				p.Role = metapb.PeerRole_Voter
				n++
			case metapb.PeerRole_DemotingVoter:
				p.Role = metapb.PeerRole_Learner
				n++
			}
		}
		s.confVer += uint64(n)
	default:
		return "unknown-step-kind"
	}
	return ""
}
