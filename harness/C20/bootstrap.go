package server

import (
	"github.com/pingcap/kvproto/pkg/metapb"
	"github.com/pingcap/kvproto/pkg/pdpb"
	"github.com/tikv/pd/pkg/typeutil"
	v "github.com/tikv/pd/pkg/zzvrf"
	"github.com/tikv/pd/server/cluster"
	"github.com/tikv/pd/server/config"
	"github.com/tikv/pd/server/kv"
	"github.com/tikv/pd/server/replication"
)

func vrfBootstrapServer() *vrfServerWorld {
	w := vrfNewServer(kv.NewMemoryKV())
	s := w.s
	cfg := &config.Config{}
	cfg.Replication.MaxReplicas = 3
	cfg.ReplicationMode.ReplicationMode = "majority"
	s.persistOptions = config.NewPersistOptions(cfg)
	// the cluster object counts as started, so that bootstrapCluster's final Start is a no-op
	// (its background workers are outside the model); the handler-level "already running"
	// shortcut is bypassed on purpose: racing requests are those that got past it.
	m, err := replication.NewReplicationModeManager(cfg.ReplicationMode, s.storage, nil, nil)
	if err != nil {
		v.Assume(false)
	}
	cluster.VerifSetReplicationMode(s.cluster, m)
	return w
}

// request variant: 0 well-formed, 1 zero peer id, 2 non-empty start key, 3 peer on another store,
// 4 a second peer (on another store) besides the well-formed one
func vrfBootstrapReq(storeID, regionID uint64, variant int) *pdpb.BootstrapRequest {
	peerID := v.Uint64("peerID")
	v.Assume(peerID != 0)
	req := &pdpb.BootstrapRequest{
		Header: vrfHeader(),
		Store:  &metapb.Store{Id: storeID, Address: string(v.Bytes("addr", 1))},
		Region: &metapb.Region{Id: regionID, Peers: []*metapb.Peer{{Id: peerID, StoreId: storeID}}},
	}
	switch variant {
	case 1:
		req.Region.Peers[0].Id = 0
	case 2:
		req.Region.StartKey = []byte("a")
	case 3:
		req.Region.Peers[0].StoreId = storeID + 5
	case 4:
		req.Region.Peers = append(req.Region.Peers, &metapb.Peer{Id: peerID + 1, StoreId: storeID + 5})
	}
	return req
}

// VerifC20Bootstrap: two bootstrap requests (well-formed or malformed, distinct
// payloads) race past the handler's shortcut; one is interrupted at any
// scheduling point (etcd operation, lock) by the other. Exactly the well-formed
// winner's data is stored; the loser changes nothing.
func VerifC20Bootstrap() {
	w := vrfBootstrapServer()
	s := w.s
	va, vb := v.Choice("variantA", 5), v.Choice("variantB", 5)
	sameIDs := v.Choice("sameIDs", 2) == 1
	ra := vrfBootstrapReq(1, 10, va)
	rb := vrfBootstrapReq(2, 20, vb)
	if sameIDs {
		rb = vrfBootstrapReq(1, 10, vb)
	}
	var ea, eb error
	v.Interleave(func() { _, ea = s.bootstrapCluster(ra) }, func() { _, eb = s.bootstrapCluster(rb) })
	okA, okB := ea == nil, eb == nil
	v.Observe("okA", okA)
	v.Observe("okB", okB)
	v.Assert("malformed-A-refused", !(okA && va != 0))
	v.Assert("malformed-B-refused", !(okB && vb != 0))
	v.Assert("at-most-one-success", !(okA && okB))
	if va == 0 || vb == 0 {
		v.Assert("a-well-formed-request-wins", okA || okB)
	}
	etcd := w.etcd
	root := s.GetClusterRootPath()
	v.Assert("cluster-meta-iff-success", etcd.Has(root) == (okA || okB))
	check := func(req *pdpb.BootstrapRequest, ok bool, other *pdpb.BootstrapRequest, otherOK bool, tag string) {
		sk, rk := makeStoreKey(root, req.Store.Id), makeRegionKey(root, req.Region.Id)
		if ok {
			var st metapb.Store
			v.Assert(tag+"-winner-store-stored", etcd.Has(sk) && st.Unmarshal(etcd.Value(sk)) == nil && st.Id == req.Store.Id && st.Address == req.Store.Address)
			var rg metapb.Region
			v.Assert(tag+"-winner-region-stored", etcd.Has(rk) && rg.Unmarshal(etcd.Value(rk)) == nil && rg.Id == req.Region.Id && len(rg.Peers) == 1 && rg.Peers[0].Id == req.Region.Peers[0].Id)
			var lr metapb.Region
			found, _ := s.storage.LoadRegion(req.Region.Id, &lr)
			v.Assert(tag+"-winner-region-in-region-storage", found && lr.Peers[0].Id == req.Region.Peers[0].Id)
		} else if !(otherOK && other.Store.Id == req.Store.Id) {
			v.Assert(tag+"-loser-store-not-stored", !etcd.Has(sk))
			v.Assert(tag+"-loser-region-not-stored", !etcd.Has(rk))
			var lr metapb.Region
			found, _ := s.storage.LoadRegion(req.Region.Id, &lr)
			v.Assert(tag+"-loser-region-not-in-region-storage", !found)
		} else {
			// same ids as the winner: the stored records must be the winner's, not this request's
			var rg metapb.Region
			v.Assert(tag+"-loser-did-not-overwrite", etcd.Has(rk) && rg.Unmarshal(etcd.Value(rk)) == nil && rg.Peers[0].Id == other.Region.Peers[0].Id)
			var lr metapb.Region
			found, _ := s.storage.LoadRegion(req.Region.Id, &lr)
			v.Assert(tag+"-loser-did-not-overwrite-region-storage", found && lr.Peers[0].Id == other.Region.Peers[0].Id)
		}
	}
	check(ra, okA, rb, okB, "A")
	check(rb, okB, ra, okA, "B")
	// a later, repeated request is refused and changes nothing
	if okA || okB {
		rc := vrfBootstrapReq(3, 30, 0)
		writes := etcd.Writes
		_, ec := s.bootstrapCluster(rc)
		v.Assert("repeated-bootstrap-refused", ec != nil)
		v.Assert("repeated-bootstrap-writes-nothing", etcd.Writes == writes)
		v.Reach("bootstrapped")
	}
	v.Reach("end")
}

// VerifC20ClusterID: two members initialise the cluster id concurrently (symbolic
// clocks and random parts); both obtain the stored value, and so does a later member.
func VerifC20ClusterID() {
	w := vrfNewServer(kv.NewMemoryKV())
	c := w.s.client
	key := "/pd/cluster_id"
	var a, b uint64
	var ea, eb error
	v.Interleave(func() { a, ea = initOrGetClusterID(c, key) }, func() { b, eb = initOrGetClusterID(c, key) })
	v.Assert("no-error", ea == nil && eb == nil)
	if ea != nil || eb != nil {
		return
	}
	stored, err := typeutil.BytesToUint64(w.etcd.Value(key))
	v.Assert("stored", err == nil)
	v.Assert("members-agree", a == b)
	v.Assert("agree-with-stored", a == stored)
	d, ed := initOrGetClusterID(c, key)
	v.Assert("later-member-gets-same-id", ed == nil && d == stored)
	// requests carrying another cluster id are refused
	w.s.clusterID = stored
	other := v.Uint64("otherClusterID")
	err = w.s.validateRequest(&pdpb.RequestHeader{ClusterId: other})
	v.Assert("other-cluster-id-refused-iff-different", (err != nil) == (other != stored))
	v.Reach("end")
}
