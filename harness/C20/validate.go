package server

import (
	"context"
	"time"

	"github.com/pingcap/kvproto/pkg/pdpb"
	v "github.com/tikv/pd/pkg/zzvrf"
	"github.com/tikv/pd/server/election"
	"github.com/tikv/pd/server/id"
	"github.com/tikv/pd/server/kv"
	"github.com/tikv/pd/server/member"
)

// VerifValidateRequest: the gate in front of the metadata RPCs. A server whose lease expires at an arbitrary
// instant, whose recorded leader is itself or another member, receives a request with an arbitrary cluster id
// at an arbitrary clock reading: the request passes only if the lease is locally unexpired, the member is the
// recorded leader and the cluster id is the server's own. AllocID is used as a representative RPC.
func VerifValidateRequest() {
	w := vrfNewServer(kv.NewMemoryKV())
	s := w.s
	expire := v.Int64("leaseExpireNs")
	v.Assume(v.And(expire > 946684800*int64(time.Second), expire < 2208988800*int64(time.Second)))
	ls := election.VerifLeadership(s.client, "/pd/7/leader", "pd-1-value", 7, time.Unix(0, expire))
	self := v.Choice("recordedLeaderIsSelf", 2) == 1
	s.member = member.VerifMember(s.client, ls, 1, "/pd/7", "pd-1-value", self)
	s.idAllocator = id.NewAllocator(s.client, s.rootPath, s.member.MemberValue())
	cid := v.Uint64("requestClusterID")
	nowNs := v.Int64("nowNs")
	v.Assume(v.And(nowNs > 946684800*int64(time.Second), nowNs < 2208988800*int64(time.Second)))
	v.FixClock(nowNs)
	err := s.validateRequest(&pdpb.RequestHeader{ClusterId: cid})

	_ = 0
	if err == nil {
		v.Reach("passed")
		v.Assert("passes-only-with-an-unexpired-lease", nowNs <= expire)
		v.Assert("passes-only-for-the-recorded-leader", self)
		v.Assert("passes-only-for-the-own-cluster-id", cid == vrfClusterID)
	} else {
		v.Reach("refused")
		v.Assert("refuses-only-for-a-reason", v.Or(nowNs > expire, !self, cid != vrfClusterID))
	}
	// a representative RPC behind the gate
	resp, rerr := s.AllocID(context.Background(), &pdpb.AllocIDRequest{Header: &pdpb.RequestHeader{ClusterId: cid}})
	if rerr == nil && resp.GetHeader().GetError() == nil && resp.GetId() != 0 {
		v.Assert("rpc-served-only-for-the-own-cluster-id", cid == vrfClusterID)
		v.Assert("rpc-served-only-by-the-recorded-leader", self)
	}
	v.Reach("end")
}
