package syncer

import (
	"context"

	"github.com/juju/ratelimit"
	"github.com/pingcap/kvproto/pkg/metapb"
	"github.com/pingcap/kvproto/pkg/pdpb"
	v "github.com/tikv/pd/pkg/zzvrf"
	"github.com/tikv/pd/pkg/grpcutil"
	"github.com/tikv/pd/server/core"
	"github.com/tikv/pd/server/kv"
)

type vrfServer struct {
	regions []*core.RegionInfo
	bc      *core.BasicCluster
	storage *core.Storage
}

func (s *vrfServer) LoopContext() context.Context       { return context.Background() }
func (s *vrfServer) ClusterID() uint64                  { return 1 }
func (s *vrfServer) GetMemberInfo() *pdpb.Member        { return &pdpb.Member{Name: "leader"} }
func (s *vrfServer) GetLeader() *pdpb.Member            { return &pdpb.Member{Name: "leader"} }
func (s *vrfServer) GetStorage() *core.Storage          { return s.storage }
func (s *vrfServer) Name() string                       { return "leader" }
func (s *vrfServer) GetRegions() []*core.RegionInfo     { return s.regions }
func (s *vrfServer) GetTLSConfig() *grpcutil.TLSConfig  { return nil }
func (s *vrfServer) GetBasicCluster() *core.BasicCluster { return s.bc }

type vrfStream struct {
	pdpb.PD_SyncRegionsServer // nil: only Send is used by syncHistoryRegion
	sent                      []*pdpb.SyncRegionResponse
}

func (s *vrfStream) Send(r *pdpb.SyncRegionResponse) error {
	// keep a copy of the slices as the gRPC layer would serialise them at this moment
	cp := &pdpb.SyncRegionResponse{StartIndex: r.StartIndex}
	cp.Regions = append(cp.Regions, r.Regions...)
	cp.RegionStats = append(cp.RegionStats, r.RegionStats...)
	cp.RegionLeaders = append(cp.RegionLeaders, r.RegionLeaders...)
	s.sent = append(s.sent, cp)
	return nil
}

func vrfSyncer(regions []*core.RegionInfo, hist int) *RegionSyncer {
	srv := &vrfServer{regions: regions}
	s := &RegionSyncer{server: srv, history: newHistoryBuffer(hist, kv.NewMemoryKV())}
	if !v.Symbolic() {
		s.limit = ratelimit.NewBucketWithRate(defaultBucketRate, defaultBucketCapacity)
	}
	return s
}

// vrfRegions builds n regions with symbolic leader ids and flow statistics.
// leaderMode: 0 every region has a leader, 1 none has, 2 alternating.
func vrfRegions(n, leaderMode int) (rs []*core.RegionInfo, leaderIDs []uint64, written []uint64) {
	for i := 0; i < n; i++ {
		id := v.Uint64("leaderID")
		w := v.Uint64("bytesWritten")
		v.Assume(id != 0)
		meta := &metapb.Region{Id: uint64(i + 1), Peers: []*metapb.Peer{{Id: id, StoreId: 1}}}
		var leader *metapb.Peer
		if leaderMode == 0 || (leaderMode == 2 && i%2 == 0) {
			leader = meta.Peers[0]
		} else {
			id = 0
		}
		rs = append(rs, core.NewRegionInfo(meta, leader, core.SetWrittenBytes(w)))
		leaderIDs = append(leaderIDs, id)
		written = append(written, w)
	}
	return
}

// VerifC16FullSync: a full synchronisation (start index 0, empty change log) of n
// regions sends every region exactly once, in batches whose three arrays have equal
// length and describe the same region at every position (what the follower's pairing
// by position relies on).
func VerifC16FullSync() {
	sizes := []int{0, 1, 2, 99, 100, 101, 102, 199, 200, 201, 205}
	n := sizes[v.Choice("n", v.Param("nSizes", 7))]
	mode := v.Choice("leaderMode", 3)
	regions, leaderIDs, written := vrfRegions(n, mode)
	s := vrfSyncer(regions, 10)
	// the leader's change log has advanced past 0 (otherwise a follower at index 0 counts as in sync)
	s.history.ResetWithIndex(1 + uint64(v.Choice("leaderIndex", 2))*500)
	stream := &vrfStream{}
	err := s.syncHistoryRegion(&pdpb.SyncRegionRequest{Member: &pdpb.Member{Name: "f"}, StartIndex: 0}, stream)
	v.Assert("no-error", err == nil)
	pos := 0
	for _, resp := range stream.sent {
		v.Assert("arrays-equal-length", len(resp.Regions) == len(resp.RegionLeaders) && len(resp.Regions) == len(resp.RegionStats))
		v.Assert("batch-size", len(resp.Regions) <= maxSyncRegionBatchSize && len(resp.Regions) > 0)
		v.Assert("start-index", resp.StartIndex == uint64(pos))
		for i, r := range resp.Regions {
			if pos >= n {
				v.Assert("no-extra-regions", false)
				break
			}
			v.Assert("region-order", r.Id == uint64(pos+1))
			if i < len(resp.RegionLeaders) {
				// the follower uses RegionLeaders[i] (Id != 0) as the leader of Regions[i]
				v.Assert("leader-matches-region", resp.RegionLeaders[i].Id == leaderIDs[pos])
			}
			if i < len(resp.RegionStats) {
				v.Assert("stats-match-region", resp.RegionStats[i].BytesWritten == written[pos])
			}
			pos++
		}
	}
	v.Assert("all-regions-sent-once", pos == n)
	v.Reach("end")
}

// VerifC16IncrementalSync: a request from an index inside the change log gets exactly
// the records from that index on, with aligned arrays.
func VerifC16IncrementalSync() {
	n := 1 + v.Choice("records", 6)
	mode := v.Choice("leaderMode", 3)
	regions, leaderIDs, written := vrfRegions(n, mode)
	s := vrfSyncer(nil, 4)
	base := uint64(v.Choice("base", 2)) * 1000
	s.history.ResetWithIndex(base)
	for _, r := range regions {
		s.history.Record(r)
	}
	keep := n
	if keep > 4 {
		keep = 4
	}
	from := v.Choice("from", n+2) // 0..n+1 relative to base
	stream := &vrfStream{}
	err := s.syncHistoryRegion(&pdpb.SyncRegionRequest{Member: &pdpb.Member{Name: "f"}, StartIndex: base + uint64(from)}, stream)
	v.Assert("no-error", err == nil)
	first := n - keep
	if from >= first && from < n {
		v.Assert("one-response", len(stream.sent) == 1)
		if len(stream.sent) == 1 {
			resp := stream.sent[0]
			v.Assert("inc-start-index", resp.StartIndex == base+uint64(from))
			v.Assert("inc-len", len(resp.Regions) == n-from && len(resp.RegionLeaders) == n-from && len(resp.RegionStats) == n-from)
			for i := range resp.Regions {
				v.Assert("inc-region", resp.Regions[i].Id == uint64(from+i+1))
				v.Assert("inc-leader", resp.RegionLeaders[i].Id == leaderIDs[from+i])
				v.Assert("inc-stats", resp.RegionStats[i].BytesWritten == written[from+i])
			}
		}
		v.Reach("in-window")
	} else if from == n {
		v.Assert("in-sync-nothing-sent", len(stream.sent) == 0)
	}
	v.Reach("end")
}
