package syncer

import (
	"strconv"

	"github.com/pingcap/kvproto/pkg/metapb"
	v "github.com/tikv/pd/pkg/zzvrf"
	"github.com/tikv/pd/server/core"
	"github.com/tikv/pd/server/kv"
)

// vrfRing builds a historyBuffer in an arbitrary state satisfying the
// representation invariant:
//   0 <= head,tail < size; index >= len(); 1 <= flushCount <= 100;
//   persisted index P (if any) satisfies index - P == 100 - flushCount.
// size, head and tail are case-split (concrete per path); index, flushCount and
// the query index are symbolic 64-bit values.
func vrfRing(maxSize int) (h *historyBuffer, window []*core.RegionInfo, store kv.Base) {
	n := 2 + v.Choice("size", maxSize-1) // 2..maxSize
	head := v.Choice("head", n)
	tail := v.Choice("tail", n)
	store = kv.NewMemoryKV()
	h = &historyBuffer{records: make([]*core.RegionInfo, n), size: n, kv: store}
	h.head, h.tail = head, tail
	h.index = v.Uint64("index")
	h.flushCount = v.IntRange("flushCount", 1, defaultFlushCount)
	l := h.len()
	v.Assume(h.index >= uint64(l))
	// persisted index consistent with the number of records since the last flush
	since := uint64(defaultFlushCount - h.flushCount)
	v.Assume(h.index >= since)
	persisted := h.index - since
	if v.Bool("hasPersisted") {
		// FormatUint of a symbolic value is outside the encoder: the persisted key is
		// kept as a ghost (vrfPersisted) and reload() is exercised with concrete values below.
		vrfPersisted = persisted
	} else {
		v.Assume(persisted == 0)
		vrfPersisted = 0
	}
	for k := 0; k < l; k++ {
		r := core.NewRegionInfo(&metapb.Region{Id: uint64(1000 + k)}, nil)
		h.records[(head+k)%n] = r
		window = append(window, r)
	}
	return h, window, store
}

var vrfPersisted uint64

// VerifC16RecordStep: one Record from an arbitrary valid state, then one
// RecordsFrom with an arbitrary index; the result must be exactly the suffix
// of the logical window, and nil outside it.
func VerifC16RecordStep() {
	h, window, _ := vrfRing(v.Param("maxSize", 5))
	oldIndex := h.index
	oldFlush := h.flushCount
	v.Assume(oldFlush > 1) // the flush branch (FormatUint of a symbolic index) is checked in VerifC16FlushStep
	r := core.NewRegionInfo(&metapb.Region{Id: 7}, nil)
	v.Assume(oldIndex < ^uint64(0)) // index wrap at 2^64 is outside the claim

	h.Record(r) // real code

	newW := append(append([]*core.RegionInfo{}, window...), r)
	if len(newW) > h.size-1 {
		newW = newW[1:]
	}
	v.Assert("next-index", h.nextIndex() == oldIndex+1)
	v.Assert("len", h.len() == len(newW))
	v.Assert("flush-count", h.flushCount == oldFlush-1)
	first := oldIndex + 1 - uint64(len(newW))
	v.Assert("first-index", h.firstIndex() == first)

	q := v.Uint64("query")
	got := h.RecordsFrom(q) // real code

	if v.ConcreteBool(v.And(q >= first, q < oldIndex+1)) {
		off := v.Concrete(int(q - first))
		exp := newW[off:]
		v.Assert("from-len", len(got) == len(exp))
		if len(got) == len(exp) {
			for j := range exp {
				v.Assert("from-elem", got[j] == exp[j])
			}
		}
		v.Reach("in-window")
	} else {
		v.Assert("nil-outside", got == nil)
		v.Reach("outside-window")
	}
	v.Reach("end")
}

// VerifC16FlushStep: with concrete indices around the flush boundary, Record
// persists exactly every 100 records and a restart (new buffer on the same
// store) resumes at an index that is at most 100 behind.
func VerifC16FlushStep() {
	store := kv.NewMemoryKV()
	start := uint64(v.Choice("startHundreds", 3)) * 1000
	if start > 0 {
		store.Save(historyKey, strconv.FormatUint(start, 10))
	}
	h := newHistoryBuffer(3, store)
	v.Assert("reload", h.nextIndex() == start)
	n := 99 + v.Choice("records", 103) // 99..201 records
	for i := 0; i < n; i++ {
		h.Record(core.NewRegionInfo(&metapb.Region{Id: uint64(i)}, nil))
	}
	h2 := newHistoryBuffer(3, store)
	v.Assert("restart-not-ahead", h2.nextIndex() <= h.nextIndex())
	v.Assert("restart-within-100", h.nextIndex()-h2.nextIndex() < 100)
	v.Reach("end")
}

// VerifC16ResetRestart: after a reset to an arbitrary (concrete, case-split) index
// followed by k records, a restart on the same store resumes at most 100 behind.
func VerifC16ResetRestart() {
	store := kv.NewMemoryKV()
	h := newHistoryBuffer(3, store)
	pre := v.Choice("recordsBefore", 3) * 60
	for i := 0; i < pre; i++ {
		h.Record(core.NewRegionInfo(&metapb.Region{Id: uint64(i)}, nil))
	}
	targets := []uint64{0, 50, 100, 101, 5000, 1 << 40}
	h.ResetWithIndex(targets[v.Choice("target", len(targets))])
	k := v.Choice("recordsAfter", 4) * 40 // 0, 40, 80, 120
	for i := 0; i < k; i++ {
		h.Record(core.NewRegionInfo(&metapb.Region{Id: uint64(i)}, nil))
	}
	h2 := newHistoryBuffer(3, store)
	v.Assert("restart-after-reset-within-100", h.nextIndex()-h2.nextIndex() <= 100)
	v.Reach("end")
}
