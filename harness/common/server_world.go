package server

import (
	"time"

	"github.com/pingcap/kvproto/pkg/pdpb"
	v "github.com/tikv/pd/pkg/zzvrf"
	"github.com/tikv/pd/pkg/zzvrf/vetcd"
	"github.com/tikv/pd/server/cluster"
	"github.com/tikv/pd/server/core"
	"github.com/tikv/pd/server/election"
	"github.com/tikv/pd/server/kv"
	"github.com/tikv/pd/server/member"
	"github.com/tikv/pd/server/tso"
	"go.etcd.io/etcd/etcdserver/etcdserverpb"
)

// vrfServer builds a *Server that is the serving PD leader of cluster 7, without
// etcd, gRPC or background loops: member with a valid lease, running cluster,
// storage on the given kv.Base, and a TSO source supplied by the harness.
const vrfClusterID = 7

type vrfServerWorld struct {
	s      *Server
	etcd   *vetcd.Store
	nowTSO func() (pdpb.Timestamp, error)
}

func vrfNewServer(base kv.Base) *vrfServerWorld {
	w := &vrfServerWorld{}
	w.etcd = vetcd.New()
	c := w.etcd.Client()
	ls := election.VerifLeadership(c, "/pd/7/leader", "pd-1-value", 7, time.Unix(0, int64(1)<<62))
	w.etcd.SetRaw("/pd/7/leader", []byte("pd-1-value"))
	w.etcd.SetMembers([]*etcdserverpb.Member{{ID: 1, Name: "pd-1", ClientURLs: []string{"http://pd-1:2379"}}})
	s := &Server{}
	s.isServing = 1
	s.clusterID = vrfClusterID
	s.client = c
	s.rootPath = "/pd/7"
	s.member = member.VerifMember(c, ls, 1, "/pd/7", "pd-1-value", true)
	s.storage = core.NewStorage(base)
	s.cluster = &cluster.RaftCluster{}
	cluster.VerifSetRunning(s.cluster, true)
	s.tsoAllocatorManager = tso.VerifAllocatorManager(&tso.VerifStubAllocator{Gen: func(uint32) (pdpb.Timestamp, error) {
		return w.nowTSO()
	}})
	w.s = s
	return w
}

func vrfHeader() *pdpb.RequestHeader { return &pdpb.RequestHeader{ClusterId: vrfClusterID} }

var _ = v.Reach
