package tso

import (
	"context"

	"github.com/pingcap/kvproto/pkg/pdpb"
)

// VerifStubAllocator is an Allocator whose GenerateTSO is supplied by the harness
// (used where a request only needs "the current time according to TSO").
type VerifStubAllocator struct {
	Gen func(count uint32) (pdpb.Timestamp, error)
}

func (a *VerifStubAllocator) Initialize(int) error                         { return nil }
func (a *VerifStubAllocator) IsInitialize() bool                           { return true }
func (a *VerifStubAllocator) UpdateTSO() error                             { return nil }
func (a *VerifStubAllocator) SetTSO(uint64) error                          { return nil }
func (a *VerifStubAllocator) GenerateTSO(c uint32) (pdpb.Timestamp, error) { return a.Gen(c) }
func (a *VerifStubAllocator) Reset()                                       {}

// VerifAllocatorManager returns a manager whose global allocator is the given one.
func VerifAllocatorManager(global Allocator) *AllocatorManager {
	am := &AllocatorManager{}
	am.mu.allocatorGroups = map[string]*allocatorGroup{
		GlobalDCLocation: {dcLocation: GlobalDCLocation, ctx: context.Background(), allocator: global},
	}
	return am
}
