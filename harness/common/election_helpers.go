package election

import (
	"time"

	"go.etcd.io/etcd/clientv3"
)

// VerifLeadership builds a Leadership as Campaign leaves it — leader value recorded,
// lease object present with the given expire time — without going through the
// campaign transaction (harness helper, overlay only).
func VerifLeadership(client *clientv3.Client, leaderKey, leaderValue string, id clientv3.LeaseID, expire time.Time) *Leadership {
	ls := NewLeadership(client, leaderKey, "verif")
	ls.leaderValue = leaderValue
	l := &lease{Purpose: "verif", client: client, lease: clientv3.NewLease(client), ID: id, leaseTimeout: 3 * time.Second}
	l.expireTime.Store(expire)
	ls.setLease(l)
	return ls
}

// VerifExpireTime returns the local expire time of the lease (zero if none).
func VerifExpireTime(ls *Leadership) time.Time {
	l := ls.getLease()
	if l == nil || l.expireTime.Load() == nil {
		return time.Time{}
	}
	return l.expireTime.Load().(time.Time)
}
