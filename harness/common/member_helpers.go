package member

import (
	"github.com/pingcap/kvproto/pkg/pdpb"
	"github.com/tikv/pd/server/election"
	"go.etcd.io/etcd/clientv3"
)

// VerifMember builds a Member as campaignLeader/EnableLeader leave it (harness helper, overlay only).
func VerifMember(client *clientv3.Client, ls *election.Leadership, id uint64, rootPath, memberValue string, isLeader bool) *Member {
	m := &Member{leadership: ls, client: client, id: id, rootPath: rootPath, memberValue: memberValue,
		member: &pdpb.Member{Name: "pd-1", MemberId: id, ClientUrls: []string{"http://pd-1:2379"}}}
	if isLeader {
		m.leader.Store(m.member)
	} else {
		m.leader.Store(&pdpb.Member{})
	}
	return m
}
