package cluster

import (
	"context"

	"github.com/tikv/pd/server/config"
	"github.com/tikv/pd/server/core"
	"github.com/tikv/pd/server/id"
	"github.com/tikv/pd/server/replication"
	"github.com/tikv/pd/server/schedule/placement"
)

// VerifSetRunning marks the cluster as running without starting background workers (harness helper, overlay only).
func VerifSetRunning(c *RaftCluster, running bool) {
	c.Lock()
	c.running = running
	c.Unlock()
}

// VerifSetReplicationMode installs a replication mode manager (Start normally does this).
func VerifSetReplicationMode(c *RaftCluster, m *replication.ModeManager) { c.replicationMode = m }

// VerifSetRuleManager installs a placement rule manager (InitCluster/Start normally do this).
func VerifSetRuleManager(c *RaftCluster, m *placement.RuleManager) { c.ruleManager = m }

// VerifNewCluster builds a RaftCluster the way Server.createRaftCluster + InitCluster do, without starting
// background workers (harness helper, overlay only).
func VerifNewCluster(id id.Allocator, opt *config.PersistOptions, storage *core.Storage) *RaftCluster {
	c := &RaftCluster{ctx: context.Background(), running: true}
	c.InitCluster(id, opt, storage, core.NewBasicCluster())
	return c
}
