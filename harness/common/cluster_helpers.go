package cluster

// VerifSetRunning marks the cluster as running without starting background workers (harness helper, overlay only).
func VerifSetRunning(c *RaftCluster, running bool) {
	c.Lock()
	c.running = running
	c.Unlock()
}
