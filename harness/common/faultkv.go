package kv

import "errors"

// VerifFaultKV wraps a Base; Fail is consulted before every write (Save/Remove)
// and read (Load/LoadRange): true = the operation fails without effect.
type VerifFaultKV struct {
	Base
	FailWrite func(op, key string) bool
	FailRead  func(op, key string) bool
	Writes    int
}

var ErrVerifInjected = errors.New("verif: injected storage fault")

func (f *VerifFaultKV) Load(key string) (string, error) {
	if f.FailRead != nil && f.FailRead("load", key) {
		return "", ErrVerifInjected
	}
	return f.Base.Load(key)
}

func (f *VerifFaultKV) LoadRange(key, endKey string, limit int) ([]string, []string, error) {
	if f.FailRead != nil && f.FailRead("loadrange", key) {
		return nil, nil, ErrVerifInjected
	}
	return f.Base.LoadRange(key, endKey, limit)
}

func (f *VerifFaultKV) Save(key, value string) error {
	if f.FailWrite != nil && f.FailWrite("save", key) {
		return ErrVerifInjected
	}
	f.Writes++
	return f.Base.Save(key, value)
}

func (f *VerifFaultKV) Remove(key string) error {
	if f.FailWrite != nil && f.FailWrite("remove", key) {
		return ErrVerifInjected
	}
	f.Writes++
	return f.Base.Remove(key)
}
