package operator

import (
	"time"

	"github.com/pingcap/kvproto/pkg/metapb"
	v "github.com/tikv/pd/pkg/zzvrf"
)

// specTrans is the transition relation of the property statement.
func specTrans(cur, dst OpStatus) bool {
	switch cur {
	case CREATED:
		return dst == STARTED || dst == CANCELED || dst == EXPIRED
	case STARTED:
		return dst == SUCCESS || dst == CANCELED || dst == REPLACED || dst == TIMEOUT
	}
	return false
}

// VerifC09Status: from every status, every requested transition (any uint32) and
// the time-driven checks with a symbolic clock follow exactly the allowed relation.
func VerifC09Status() {
	cur := OpStatus(v.Choice("current", int(statusCount)))
	trk := NewOpStatusTracker()
	trk.current = cur
	reached := v.Int64("reachedAtNs")
	v.Assume(v.And(reached >= 946684800000000000, reached <= 2208988800000000000))
	trk.reachTimes[CREATED] = time.Unix(0, reached)
	trk.reachTimes[STARTED] = time.Unix(0, reached)
	switch v.Choice("action", 3) {
	case 0:
		dst := OpStatus(v.Uint32("dst"))
		ok := trk.To(dst)
		if ok {
			v.Assert("transition-allowed", specTrans(cur, dst))
			v.Assert("status-updated", trk.Status() == dst)
			v.Reach("moved")
		} else {
			v.Assert("refused-only-if-not-allowed", !(dst < statusCount && specTrans(cur, dst)))
			v.Assert("status-unchanged", trk.Status() == cur)
			v.Reach("refused")
		}
	case 1:
		wait := v.Int64("expireAfter")
		v.Assume(v.And(wait >= 0, wait <= int64(time.Hour)))
		r := trk.CheckExpired(time.Duration(wait))
		st := trk.Status()
		v.Assert("expire-result", r == (st == EXPIRED))
		v.Assert("expire-only-from-created", v.Or(st == cur, v.And(cur == CREATED, st == EXPIRED)))
	case 2:
		wait := v.Int64("timeoutAfter")
		v.Assume(v.And(wait >= 0, wait <= int64(time.Hour)))
		r := trk.CheckTimeout(time.Duration(wait))
		st := trk.Status()
		v.Assert("timeout-result", r == (st == TIMEOUT))
		v.Assert("timeout-only-from-started", v.Or(st == cur, v.And(cur == STARTED, st == TIMEOUT)))
	}
	v.Reach("end")
}

// VerifC09OwnSteps: while the region changes only through the operator's own
// steps (executed one by one by the simulator, a heartbeat after each), the
// operator is never judged stale: the conf_ver advance never exceeds what
// Operator.ConfVerChanged accounts for, and the step returned by Check has its
// precondition satisfied. With foreign=1 one foreign configuration change (a
// learner added on a spare store by somebody else) is injected after a symbolic
// number of own steps: from the next heartbeat on the operator must be judged stale.
func VerifC09OwnSteps() {
	foreign := v.Param("foreign", 0) == 1
	sc, ok := vrfBuildScenario()
	if !ok {
		return
	}
	sim, op := sc.sim, sc.op
	origin := op.RegionEpoch()
	for i := 0; i < op.Len(); i++ {
		v.Observe("step", op.Step(i).String())
	}
	if !op.Start() {
		v.Assert("start", false)
		return
	}
	spare := uint64(sc.n + 1) // a store the operator never touches
	injectAt := -1
	if foreign {
		injectAt = v.Choice("injectAfterSteps", op.Len()+1)
	}
	injected := false
	for beat := 0; beat <= op.Len()+1; beat++ {
		if beat == injectAt {
			sim.peers = append(sim.peers, &metapb.Peer{Id: 9999, StoreId: spare, Role: metapb.PeerRole_Learner})
			sim.confVer++
			injected = true
		}
		region := sim.info() // heartbeat
		step := op.Check(region)
		changes := region.GetRegionEpoch().GetConfVer() - origin.GetConfVer()
		staleByConfVer := changes > op.ConfVerChanged(region)
		unsafeStep := step != nil && step.CheckSafety(region) != nil
		if !injected {
			v.Assert("own-steps-never-stale-by-conf-ver", !staleByConfVer)
			v.Assert("own-steps-next-step-safe", !unsafeStep)
		} else if step != nil {
			// still running: the foreign change must be noticed at this heartbeat
			v.Assert("foreign-change-detected", staleByConfVer || unsafeStep)
			v.Reach("foreign-seen")
			return
		}
		if step == nil {
			break
		}
		// the store executes the step PD sends
		if bad := sim.apply(step); bad != "" {
			return // placement safety is C08's subject
		}
	}
	v.Reach("end")
}
