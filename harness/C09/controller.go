package schedule

import (
	"context"
	"time"

	v "github.com/tikv/pd/pkg/zzvrf"
	"github.com/tikv/pd/server/core"
	"github.com/tikv/pd/server/schedule/hbstream"
	"github.com/tikv/pd/server/schedule/operator"
)

// VerifC09Controller: an operator added to the real OperatorController, followed by up to `events` controller
// events (region heartbeat dispatch with the step done / not done / a foreign change, the region vanishing
// followed by PushOperators, time passing beyond the wait limits, GetOpInfluence, RemoveOperator). After every
// event: an operator that has left the running set is in an end status and is remembered in the records.
func VerifC09Controller() {
	w := c11Build()
	ctx := context.Background()
	oc := NewOperatorController(ctx, w.tc, hbstream.NewTestHeartbeatStreams(ctx, 1, w.tc, false))
	region := w.region
	leaderStore := region.GetLeader().GetStoreId()
	target := uint64(1)
	if leaderStore == 1 {
		target = 2
	}
	var op *operator.Operator
	var err error
	kind := v.Choice("opKind", 2)
	if kind == 0 {
		op, err = operator.CreateTransferLeaderOperator("verif-transfer", w.tc, region, leaderStore, target, operator.OpLeader)
	} else {
		op, err = operator.CreateRemovePeerOperator("verif-remove", w.tc, operator.OpRegion, region, target)
	}
	if err != nil || op == nil {
		v.Assume(false)
		return
	}
	added := oc.AddOperator(op)
	v.Observe("added", added)
	if !added {
		v.Reach("rejected")
		v.Assert("rejected-operator-is-not-running", oc.GetOperator(region.GetID()) == nil)
		return
	}
	now := c11Now
	left := false
	check := func(tag string) {
		if oc.GetOperator(region.GetID()) != op {
			v.Reach("left")
			v.Assert(tag+"-operator-that-left-the-running-set-is-in-an-end-status", op.IsEnd())
			if !left {
				// remembered when it leaves (the records are a TTL cache: not for ever)
				rec := oc.GetOperatorStatus(region.GetID())
				v.Assert(tag+"-operator-that-left-the-running-set-is-remembered", rec != nil && rec.Op == op)
			}
			left = true
		} else {
			v.Reach("running")
		}
	}
	check("added")
	n := v.Param("events", 3)
	for i := 0; i < n; i++ {
		switch v.Choice("event", 6) {
		case 0: // heartbeat: nothing changed
			oc.Dispatch(region, DispatchFromHeartBeat)
		case 1: // heartbeat: the step has been carried out
			var done *core.RegionInfo
			if kind == 0 {
				done = region.Clone(core.WithLeader(region.GetStorePeer(target)))
			} else {
				done = region.Clone(core.WithRemoveStorePeer(target), core.WithIncConfVer())
			}
			w.tc.PutRegion(done)
			region = done
			oc.Dispatch(region, DispatchFromHeartBeat)
		case 2: // heartbeat: somebody else changed the configuration
			changed := region.Clone(core.WithIncConfVer())
			w.tc.PutRegion(changed)
			region = changed
			oc.Dispatch(region, DispatchFromHeartBeat)
		case 3: // the region vanishes (merged away); the notifier queue is polled
			w.tc.RemoveRegion(region)
			oc.PushOperators()
		case 4: // time passes beyond every wait limit; a scheduler tick reads the influence
			now += int64(11 * time.Minute)
			v.FixClock(now)
			oc.GetOpInfluence(w.tc)
		case 5:
			oc.RemoveOperator(op)
		}
		check("event")
	}
	v.Reach("end")
}
