package schedule

import (
	"context"
	"time"

	v "github.com/tikv/pd/pkg/zzvrf"
	"github.com/tikv/pd/server/core"
	"github.com/tikv/pd/server/schedule/hbstream"
	"github.com/tikv/pd/server/schedule/operator"
)

// VerifC09Controller: an operator added to the real OperatorController, followed by up to `events` controller
// events (region heartbeat dispatch with the step done / not done / a foreign change, the region vanishing
// followed by PushOperators, time passing beyond the wait limits, GetOpInfluence, RemoveOperator). After every
// event: an operator that has left the running set is in an end status and is remembered in the records.
func VerifC09Controller() {
	w := c11Build()
	ctx := context.Background()
	oc := NewOperatorController(ctx, w.tc, hbstream.NewTestHeartbeatStreams(ctx, 1, w.tc, false))
	region := w.region
	leaderStore := region.GetLeader().GetStoreId()
	target := uint64(1)
	if leaderStore == 1 {
		target = 2
	}
	var op *operator.Operator
	var err error
	kind := v.Choice("opKind", 2)
	if kind == 0 {
		op, err = operator.CreateTransferLeaderOperator("verif-transfer", w.tc, region, leaderStore, target, operator.OpLeader)
	} else {
		op, err = operator.CreateRemovePeerOperator("verif-remove", w.tc, operator.OpRegion, region, target)
	}
	if err != nil || op == nil {
		v.Assume(false)
		return
	}
	added := oc.AddOperator(op)
	v.Observe("added", added)
	if !added {
		v.Reach("rejected")
		v.Assert("rejected-operator-is-not-running", oc.GetOperator(region.GetID()) == nil)
		return
	}
	now := c11Now
	left := false
	var second *operator.Operator
	check := func(tag string) {
		if oc.GetOperator(region.GetID()) != op {
			v.Reach("left")
			v.Assert(tag+"-operator-that-left-the-running-set-is-in-an-end-status", op.IsEnd())
			if !left {
				// remembered when it leaves (the records are a TTL cache: not for ever)
				rec := oc.opRecords.Get(region.GetID()) // (GetOperatorStatus answers with the running operator first)
				v.Assert(tag+"-operator-that-left-the-running-set-is-remembered", rec != nil && rec.Op == op)
			}
			left = true
		} else {
			v.Reach("running")
		}
	}
	check("added")
	n := v.Param("events", 3)
	for i := 0; i < n; i++ {
		switch v.Choice("event", 7) {
		case 0: // heartbeat: nothing changed
			oc.Dispatch(region, DispatchFromHeartBeat)
		case 1: // heartbeat: the step has been carried out
			var done *core.RegionInfo
			if kind == 0 {
				done = region.Clone(core.WithLeader(region.GetStorePeer(target)))
			} else {
				done = region.Clone(core.WithRemoveStorePeer(target), core.WithIncConfVer())
			}
			w.tc.PutRegion(done)
			region = done
			oc.Dispatch(region, DispatchFromHeartBeat)
		case 2: // heartbeat: somebody else changed the configuration
			changed := region.Clone(core.WithIncConfVer())
			w.tc.PutRegion(changed)
			region = changed
			oc.Dispatch(region, DispatchFromHeartBeat)
		case 3: // the region vanishes (merged away); the notifier queue is polled
			w.tc.RemoveRegion(region)
			oc.PushOperators()
		case 4: // time passes beyond every wait limit; a scheduler tick reads the influence
			now += int64(11 * time.Minute)
			v.FixClock(now)
			oc.GetOpInfluence(w.tc)
		case 5:
			oc.RemoveOperator(op)
		case 6: // a second operator for the same region, with the same or a higher priority
			cur := w.tc.GetRegion(region.GetID())
			if cur == nil || cur.GetLeader() == nil || second != nil {
				break
			}
			to := uint64(0)
			for _, p := range cur.GetPeers() {
				if p.GetStoreId() != cur.GetLeader().GetStoreId() {
					to = p.GetStoreId()
				}
			}
			op2, err2 := operator.CreateTransferLeaderOperator("verif-second", w.tc, cur, cur.GetLeader().GetStoreId(), to, operator.OpLeader)
			if err2 != nil || op2 == nil {
				break
			}
			if v.Choice("secondPriority", 2) == 1 {
				op2.SetPriorityLevel(core.HighPriority)
			}
			wasRunning := oc.GetOperator(region.GetID()) == op
			higher := op2.GetPriorityLevel() > op.GetPriorityLevel()
			ok := oc.AddOperator(op2)
			second = op2
			v.Reach("second")
			if wasRunning && !higher {
				v.Assert("second-operator-of-no-higher-priority-is-refused", !ok && oc.GetOperator(region.GetID()) == op)
				v.Assert("refused-operator-ends-cancelled", op2.IsEnd())
			}
			if wasRunning && ok {
				v.Assert("replaced-operator-is-in-an-end-status", op.IsEnd())
			}
			if ok {
				v.Assert("accepted-operator-is-the-running-one", oc.GetOperator(region.GetID()) == op2)
			}
		}
		// one operator per region
		n := 0
		for _, o := range oc.GetOperators() {
			if o.RegionID() == region.GetID() {
				n++
			}
		}
		v.Assert("at-most-one-running-operator-per-region", n <= 1)
		check("event")
	}
	v.Reach("end")
}
