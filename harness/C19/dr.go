package replication

import (
	"context"
	"time"

	"github.com/pingcap/kvproto/pkg/metapb"
	pb "github.com/pingcap/kvproto/pkg/replication_modepb"
	"github.com/tikv/pd/pkg/mock/mockcluster"
	"github.com/tikv/pd/pkg/typeutil"
	v "github.com/tikv/pd/pkg/zzvrf"
	"github.com/tikv/pd/server/config"
	"github.com/tikv/pd/server/core"
	"github.com/tikv/pd/server/kv"
)

const vrfNow = int64(1600000000) * int64(time.Second)

type vrfReplicater struct {
	fail  bool
	calls int
}

func (r *vrfReplicater) ReplicateFileToAllMembers(ctx context.Context, name string, data []byte) error {
	r.calls++
	if r.fail {
		return kv.ErrVerifInjected
	}
	return nil
}

type vrfDRWorld struct {
	m      *ModeManager
	tc     *mockcluster.Cluster
	fkv    *kv.VerifFaultKV
	rep    *vrfReplicater
	downP  int
	downD  int
	maxRID uint64 // largest state id any region has reported
}

// vrfDR: dr-auto-sync manager in an arbitrary state over 2 primary + 2 dr stores
// (each up or down), symbolic replica counts 0..3 and timeouts, k regions.
func vrfDR(state string) *vrfDRWorld {
	v.FixClock(vrfNow)
	cfg := &config.Config{}
	cfg.Schedule.StoreLimit = map[uint64]config.StoreLimitConfig{}
	tc := mockcluster.NewCluster(context.Background(), config.NewPersistOptions(cfg))
	w := &vrfDRWorld{tc: tc, rep: &vrfReplicater{}}
	for i := 1; i <= 4; i++ {
		dc := "east"
		if i > 2 {
			dc = "west"
		}
		hb := vrfNow
		if v.Choice("storeDown", 2) == 1 {
			hb = vrfNow - int64(2*time.Hour)
			if i <= 2 {
				w.downP++
			} else {
				w.downD++
			}
		}
		tc.PutStore(core.NewStoreInfo(&metapb.Store{Id: uint64(i), Labels: []*metapb.StoreLabel{{Key: "zone", Value: dc}}},
			core.SetLastHeartbeatTS(time.Unix(0, hb))))
	}
	rcfg := config.ReplicationModeConfig{ReplicationMode: modeDRAutoSync}
	rcfg.DRAutoSync = config.DRAutoSyncReplicationConfig{
		LabelKey: "zone", Primary: "east", DR: "west",
		PrimaryReplicas:  v.IntRange("primaryReplicas", 0, 3),
		DRReplicas:       v.IntRange("drReplicas", 0, 3),
		WaitStoreTimeout: typeutil.Duration{Duration: time.Minute},
	}
	wa := v.Int64("waitAsyncTimeout")
	v.Assume(v.And(wa >= 0, wa <= int64(time.Hour)))
	rcfg.DRAutoSync.WaitAsyncTimeout = typeutil.Duration{Duration: time.Duration(wa)}
	w.fkv = &kv.VerifFaultKV{Base: kv.NewMemoryKV()}
	storage := core.NewStorage(w.fkv)
	stateID := v.Uint64("stateID")
	v.Assume(v.And(stateID >= 1, stateID < 1000)) // ids already handed out are below the allocator's next id
	vrfFreshBase(tc)
	if err := storage.SaveReplicationStatus(modeDRAutoSync, drAutoSyncStatus{State: state, StateID: stateID}); err != nil {
		v.Assume(false)
	}
	m, err := NewReplicationModeManager(rcfg, storage, tc, w.rep)
	if err != nil {
		v.Assume(false)
	}
	init := v.Int64("leaderSinceNs")
	v.Assume(v.And(init >= vrfNow-int64(2*time.Hour), init <= vrfNow))
	m.initTime = time.Unix(0, init)
	w.m = m
	return w
}

// vrfFreshBase moves the mock id allocator (a plain counter) past every id the harness uses as "old".
func vrfFreshBase(tc *mockcluster.Cluster) {
	for i := 0; i < 1000; i++ {
		tc.AllocID()
	}
}

// vrfRegions installs k regions; returns whether they cover the whole key space
// contiguously and all report integrity under id.
func (w *vrfDRWorld) regions(k int, id uint64) (complete bool) {
	complete = true
	keys := []string{"", "b", "d", "f"}
	for i := 0; i < k; i++ {
		start, end := keys[i], ""
		if i < k-1 {
			end = keys[i+1]
		}
		mode := v.Choice("regionMode", 4) // 0 ok, 1 stale state id, 2 not integrity, 3 gap before it
		st := &pb.RegionReplicationStatus{State: pb.RegionReplicationState_INTEGRITY_OVER_LABEL, StateId: id}
		switch mode {
		case 1:
			old := v.Uint64("staleStateID")
			v.Assume(v.And(old < 1000, old != id))
			st.StateId = old
			complete = false
		case 2:
			st.State = pb.RegionReplicationState_SIMPLE_MAJORITY
			complete = false
		case 3:
			if i > 0 {
				start = start + "x" // leaves a hole after the previous region
				complete = false
			}
		}
		w.tc.PutRegion(core.NewRegionInfo(&metapb.Region{Id: uint64(100 + i), StartKey: []byte(start), EndKey: []byte(end),
			Peers: []*metapb.Peer{{Id: uint64(1000 + i), StoreId: 1}}}, nil, core.SetReplicationStatus(st)))
	}
	return complete && k > 0
}

var vrfStates = []string{drStateSync, drStateAsync, drStateSyncRecover}

// VerifC19Tick: one tick of the DR state machine from an arbitrary state.
func VerifC19Tick() {
	old := vrfStates[v.Choice("state", 3)]
	w := vrfDR(old)
	m := w.m
	oldID := m.drAutoSync.StateID
	saved := regionScanBatchSize
	regionScanBatchSize = 2 // cross scan batches with few regions (the repo's own tests set this too)
	defer func() { regionScanBatchSize = saved }()
	complete := false
	if old == drStateSyncRecover {
		complete = w.regions(v.Choice("regions", v.Param("maxRegions", 3)+1), oldID)
	}
	failSave := v.Choice("storageFault", 2) == 1
	w.fkv.FailWrite = func(op, key string) bool { return failSave }
	w.rep.fail = v.Choice("replicateFault", 2) == 1
	totalP, totalD := m.config.DRAutoSync.PrimaryReplicas, m.config.DRAutoSync.DRReplicas

	m.tickDR() // real code

	// --- specification of the guards
	canSync := v.And(w.downP < totalP, w.downD < totalD)
	up := v.IteInt(w.downP < totalP, totalP-w.downP, 0) + v.IteInt(w.downD < totalD, totalD-w.downD, 0)
	hasMajority := up*2 > totalP+totalD
	wa := int64(m.config.DRAutoSync.WaitAsyncTimeout.Duration)
	timeoutPassed := v.Or(wa == 0, vrfNow-m.initTime.UnixNano() > wa)
	now := m.drAutoSync.State
	newID := m.drAutoSync.StateID
	v.Observe("state", now)
	switch old {
	case drStateSync:
		toAsync := v.And(v.Not(canSync), hasMajority, timeoutPassed)
		if failSave {
			v.Assert("failed-persist-keeps-state", now == old && newID == oldID)
		} else {
			v.Assert("sync-to-async-iff-guard", (now == drStateAsync) == toAsync)
			v.Assert("sync-only-to-async", now == drStateSync || now == drStateAsync)
		}
	case drStateAsync:
		if failSave {
			v.Assert("failed-persist-keeps-state", now == old && newID == oldID)
		} else {
			// a fresh recovery cannot complete in the same tick: no region can have reported the new id yet
			v.Assert("async-to-recover-iff-can-sync", (now == drStateSyncRecover) == canSync)
			v.Assert("async-only-to-recover", now == drStateAsync || now == drStateSyncRecover)
		}
	case drStateSyncRecover:
		toAsync := v.And(v.Not(canSync), hasMajority, timeoutPassed)
		if failSave {
			v.Assert("failed-persist-keeps-state", now == old && newID == oldID)
		} else if v.ConcreteBool(toAsync) {
			// switched to async first; with canSync false it stays there
			v.Assert("recover-to-async-on-guard", now == drStateAsync)
		} else {
			v.Assert("recover-to-sync-iff-all-regions-recovered", (now == drStateSync) == complete)
			v.Assert("recover-only-to-sync", now == drStateSync || now == drStateSyncRecover)
		}
	}
	if now != old {
		v.Assert("fresh-state-id", newID != oldID && newID >= 1000)
		var stored drAutoSyncStatus
		ok, err := w.m.storage.LoadReplicationStatus(modeDRAutoSync, &stored)
		v.Assert("persisted-before-served", err == nil && ok && stored.State == now && stored.StateID == newID)
		v.Assert("offered-to-members", w.rep.calls >= 1)
		v.Reach("moved")
	} else {
		v.Assert("id-kept-with-state", newID == oldID)
	}
	st := m.GetReplicationStatus()
	v.Assert("served-status-matches", st.GetDrAutoSync().GetStateId() == newID)
	v.Reach("end")
}

// VerifC19ConfigSwitch: majority -> dr-auto-sync on a manager whose earlier recovery
// scan had finished: the new recovery must start from scratch, i.e. a tick with no
// region reporting the new id must not declare sync.
func VerifC19ConfigSwitch() {
	w := vrfDR(drStateSyncRecover)
	m := w.m
	saved := regionScanBatchSize
	regionScanBatchSize = 2
	defer func() { regionScanBatchSize = saved }()
	w.regions(2, m.drAutoSync.StateID)
	m.config.DRAutoSync.PrimaryReplicas, m.config.DRAutoSync.DRReplicas = 2, 1
	m.config.DRAutoSync.WaitAsyncTimeout = typeutil.Duration{}
	m.tickDR() // may complete the recovery under the old id (scan cursor at the end)
	cfg := m.config
	maj := cfg
	maj.ReplicationMode = modeMajority
	v.Assert("to-majority", m.UpdateConfig(maj) == nil)
	v.Assert("back-to-dr", m.UpdateConfig(cfg) == nil)
	v.Assert("switch-enters-recover", m.drGetState() == drStateSyncRecover)
	id2 := m.drAutoSync.StateID
	if w.downP < 2 && w.downD < 1 {
		m.tickDR()
		// regions still report the old id
		v.Assert("no-sync-without-reports-under-new-id", m.drGetState() == drStateSyncRecover && m.drAutoSync.StateID == id2)
		v.Reach("ticked")
	}
	v.Reach("end")
}
