package schedule

import (
	"context"
	"time"

	"github.com/pingcap/kvproto/pkg/metapb"
	"github.com/pingcap/kvproto/pkg/pdpb"
	"github.com/tikv/pd/pkg/mock/mockcluster"
	v "github.com/tikv/pd/pkg/zzvrf"
	"github.com/tikv/pd/server/config"
	"github.com/tikv/pd/server/core"
	"github.com/tikv/pd/server/schedule/operator"
	"github.com/tikv/pd/server/schedule/placement"
	"github.com/tikv/pd/server/versioninfo"
)

const (
	c11Now        = int64(1600000000) * int64(time.Second)
	c11Disconnect = int64(20 * time.Second)
	c11GiB        = uint64(1) << 30
)

type c11Store struct {
	id    uint64
	state metapb.StoreState // symbolic for candidate stores
	age   int64
	zone  string
}

type c11World struct {
	tc     *mockcluster.Cluster
	stores []c11Store
	region *core.RegionInfo
	// forcedLeader: the scheduler transfers the leader with EnableForceTargetLeader (grant-leader: an
	// administrator named the store); the health of the target is deliberately not consulted there
	forcedLeader bool
	// rejectZone: stores of this zone carry the reject-leader label property ("" = none)
	rejectZone string
}

func (w *c11World) store(id uint64) *c11Store {
	for i := range w.stores {
		if w.stores[i].id == id {
			return &w.stores[i]
		}
	}
	return nil
}

// c11Build: a fully replicated region (npeers peers on healthy stores 1..npeers, optionally the last one a
// learner under a learner rule) and ncand further stores with symbolic health and zone.
func c11Build() *c11World {
	v.FixClock(c11Now)
	w := &c11World{}
	npeers := v.Param("npeers", 3)
	ncand := v.Param("ncand", 2)
	rules := v.Param("rules", 0) == 1
	cfg := &config.Config{}
	cfg.Schedule.MaxSnapshotCount = 3
	cfg.Schedule.MaxPendingPeerCount = 16
	cfg.Schedule.MaxStoreDownTime.Duration = 30 * time.Minute
	cfg.Schedule.LowSpaceRatio = 0.8
	cfg.Schedule.HighSpaceRatio = 0.7
	cfg.Schedule.RegionScoreFormulaVersion = "v2"
	cfg.Schedule.StoreLimit = map[uint64]config.StoreLimitConfig{}
	cfg.Schedule.HotRegionCacheHitsThreshold = 3
	cfg.Schedule.LeaderScheduleLimit = 4
	cfg.Schedule.SchedulerMaxWaitingOperator = 5
	cfg.Schedule.RegionScheduleLimit = 64
	cfg.Schedule.TolerantSizeRatio = 0
	cfg.Schedule.LeaderSchedulePolicy = "count"
	cfg.ClusterVersion = *versioninfo.MinSupportedVersion(versioninfo.JointConsensus)
	cfg.Schedule.EnableJointConsensus = v.Param("joint", 0) == 1
	cfg.Replication.MaxReplicas = uint64(npeers)
	if v.Choice("labels", 2) == 1 {
		cfg.Replication.LocationLabels = []string{"zone"}
	}
	if v.Param("rejectleader", 0) == 1 {
		w.rejectZone = string([]byte{byte('a' + v.Choice("rejectZone", npeers))})
		cfg.LabelProperty = config.LabelPropertyConfig{"reject-leader": []config.StoreLabel{{Key: "zone", Value: w.rejectZone}}}
	}
	cfg.Replication.EnablePlacementRules = rules
	w.tc = mockcluster.NewCluster(context.Background(), config.NewPersistOptions(cfg))
	if v.Param("joint", 0) == 0 {
		w.tc.DisableFeature(versioninfo.JointConsensus)
	}
	learner := rules && v.Choice("learner", 2) == 1
	// tiflash: the learner lives on a special-engine store and the last candidate store is one as well
	tiflash := learner && v.Param("tiflash", 0) == 1
	if learner {
		rm := w.tc.RuleManager
		if err := rm.SetRule(&placement.Rule{GroupID: "pd", ID: "default", Role: placement.Voter, Count: npeers - 1,
			LocationLabels: cfg.Replication.LocationLabels}); err != nil {
			v.Assume(false)
		}
		lr := &placement.Rule{GroupID: "pd", ID: "learner", Role: placement.Learner, Count: 1}
		if tiflash {
			lr.LabelConstraints = []placement.LabelConstraint{{Key: "engine", Op: placement.In, Values: []string{"tiflash"}}}
		}
		if err := rm.SetRule(lr); err != nil {
			v.Assume(false)
		}
	}
	for i := 1; i <= npeers+ncand; i++ {
		tag := "s" + string(rune('0'+i))
		st := c11Store{id: uint64(i), zone: string([]byte{byte('a' + i - 1)})}
		busy := false
		if i > npeers {
			b := v.Byte(tag + "Zone")
			v.Assume(v.And(b >= 'a', b <= 'd'))
			st.zone = string([]byte{b})
		}
		if (i > npeers && (i == npeers+1 || i == npeers+ncand || v.Param("allhealth", 0) == 1)) || (i == 2 && v.Param("peerhealth", 0) == 1) {
			st.state = metapb.StoreState(v.Int32(tag + "State"))
			v.Assume(v.And(st.state >= 0, st.state <= 2))
			st.age = v.Int64(tag + "Age")
			v.Assume(v.And(st.age >= 0, st.age <= int64(100*time.Hour)))
			busy = v.Bool(tag + "Busy")
		}
		labels := []*metapb.StoreLabel{{Key: "zone", Value: st.zone}}
		if tiflash && (i == npeers || i == npeers+ncand) {
			labels = append(labels, &metapb.StoreLabel{Key: "engine", Value: "tiflash"})
		}
		stats := &pdpb.StoreStats{Capacity: 100 * c11GiB, Available: 60 * c11GiB, UsedSize: 40 * c11GiB, IsBusy: busy}
		size := i
		if v.Param("sizedir", 0) == 1 {
			size = npeers + ncand + 1 - i
		}
		w.tc.PutStore(core.NewStoreInfo(&metapb.Store{Id: st.id, State: st.state, LastHeartbeat: c11Now - st.age, Labels: labels},
			core.SetStoreStats(stats), core.SetRegionCount(10*size), core.SetRegionSize(int64(100*size)), core.SetLeaderCount(30*size), core.SetLeaderSize(int64(300*size))))
		w.stores = append(w.stores, st)
	}
	meta := &metapb.Region{Id: 1, StartKey: []byte("a"), EndKey: []byte("z"), RegionEpoch: &metapb.RegionEpoch{ConfVer: 5, Version: 5}}
	for i := 1; i <= npeers; i++ {
		p := &metapb.Peer{Id: uint64(100 + i), StoreId: uint64(i)}
		if learner && i == npeers {
			p.Role = metapb.PeerRole_Learner
		}
		meta.Peers = append(meta.Peers, p)
	}
	lead := v.Choice("leader", npeers)
	if learner && lead == npeers-1 {
		lead = 0
	}
	w.region = core.NewRegionInfo(meta, meta.Peers[lead], core.SetApproximateSize(10), core.SetApproximateKeys(10))
	w.tc.PutRegion(w.region)
	return w
}

// c11Apply replays the operator's steps on the region's peer set like a TiKV region would, asserting
// the per-step obligations of C11.
func c11Apply(w *c11World, op *operator.Operator) {
	roles := map[uint64]metapb.PeerRole{}
	voters0, learners0 := 0, 0
	for _, p := range w.region.GetPeers() {
		roles[p.GetStoreId()] = p.GetRole()
		if p.GetRole() == metapb.PeerRole_Learner {
			learners0++
		} else {
			voters0++
		}
	}
	leader := w.region.GetLeader().GetStoreId()
	add := func(store uint64, role metapb.PeerRole) {
		_, holds := roles[store]
		v.Assert("peer-added-only-on-a-store-without-a-peer-of-the-region", !holds)
		st := w.store(store)
		v.Assert("peer-added-only-on-a-known-store", st != nil)
		if st != nil {
			v.Assert("peer-added-only-on-an-up-store", st.state == metapb.StoreState_Up)
			v.Assert("peer-added-only-on-a-connected-store", st.age <= c11Disconnect)
		}
		roles[store] = role
	}
	for i := 0; i < op.Len(); i++ {
		switch s := op.Step(i).(type) {
		case operator.AddPeer:
			add(s.ToStore, metapb.PeerRole_Voter)
		case operator.AddLightPeer:
			add(s.ToStore, metapb.PeerRole_Voter)
		case operator.AddLearner:
			add(s.ToStore, metapb.PeerRole_Learner)
		case operator.AddLightLearner:
			add(s.ToStore, metapb.PeerRole_Learner)
		case operator.PromoteLearner:
			roles[s.ToStore] = metapb.PeerRole_Voter
		case operator.DemoteFollower:
			v.Assert("leader-is-not-demoted", s.ToStore != leader)
			roles[s.ToStore] = metapb.PeerRole_Learner
		case operator.ChangePeerV2Enter:
			for _, p := range s.PromoteLearners {
				roles[p.ToStore] = metapb.PeerRole_Voter
			}
			for _, d := range s.DemoteVoters {
				v.Assert("leader-is-not-demoted", d.ToStore != leader)
				roles[d.ToStore] = metapb.PeerRole_Learner
			}
		case operator.ChangePeerV2Leave:
		case operator.RemovePeer:
			_, holds := roles[s.FromStore]
			v.Assert("removed-peer-exists", holds)
			v.Assert("leader-is-not-removed", s.FromStore != leader)
			delete(roles, s.FromStore)
		case operator.TransferLeader:
			role, holds := roles[s.ToStore]
			v.Assert("leader-moves-to-a-voter-of-the-region", holds && role == metapb.PeerRole_Voter)
			v.Assert("leader-transfer-source-differs-from-target", s.ToStore != leader)
			if st := w.store(s.ToStore); st != nil && !w.forcedLeader {
				v.Assert("leader-moves-to-an-up-store", st.state == metapb.StoreState_Up)
				v.Assert("leader-moves-to-a-connected-store", st.age <= c11Disconnect)
				if w.rejectZone != "" {
					v.Assert("leader-moves-to-a-store-that-accepts-leaders", v.Not(v.StrEq(st.zone, w.rejectZone)))
				}
			}
			leader = s.ToStore
		default:
			v.Assert("no-merge-or-split-step", false)
		}
	}
	voters, learners := 0, 0
	for _, r := range roles {
		if r == metapb.PeerRole_Learner {
			learners++
		} else {
			voters++
		}
	}
	v.Assert("voter-count-preserved", voters == voters0)
	v.Assert("learner-count-preserved", learners == learners0)
	_, holds := roles[leader]
	v.Assert("leader-is-a-peer-at-the-end", holds)
}

