package schedule

import (
	"context"

	v "github.com/tikv/pd/pkg/zzvrf"
	"github.com/tikv/pd/server/schedule/filter"
)

// VerifC11Scatter: RegionScatterer.Scatter of a replicated region for every history of earlier scatter
// decisions (symbolic per-store peer and leader counters of the group and of another group).
func VerifC11Scatter() {
	w := c11Build()
	r := NewRegionScatterer(context.Background(), w.tc)
	// history: per-store counters as earlier Scatter calls would have left them
	peerDist, leaderDist, otherDist := map[uint64]uint64{}, map[uint64]uint64{}, map[uint64]uint64{}
	for _, st := range w.stores {
		tag := "hist" + string(rune('0'+st.id))
		p, l, o := uint64(0), uint64(0), uint64(0)
		if v.Param("ordhist", 1) == 1 {
			p, l = v.Uint64(tag+"Peer"), v.Uint64(tag+"Leader")
		}
		if v.Param("othergroup", 0) == 1 {
			o = v.Uint64(tag + "Other")
		}
		v.Assume(v.And(p < 1000, l < 1000, o < 1000))
		peerDist[st.id], leaderDist[st.id], otherDist[st.id] = p, l, o
	}
	r.ordinaryEngine.selectedPeer.groupDistribution.Put("g", peerDist)
	r.ordinaryEngine.selectedPeer.groupDistribution.Put("other", otherDist)
	r.ordinaryEngine.selectedLeader.groupDistribution.Put("g", leaderDist)
	if v.Param("tiflash", 0) == 1 {
		// earlier scatters of TiFlash peers: the engine context exists with its own history
		ectx := newEngineContext(r.ctx, filter.NewEngineFilter(r.name, "tiflash"))
		dist := map[uint64]uint64{}
		for _, st := range w.stores {
			n := v.Uint64("histT" + string(rune('0'+st.id)))
			v.Assume(n < 1000)
			dist[st.id] = n
		}
		ectx.selectedPeer.groupDistribution.Put("g", dist)
		r.specialEngines["tiflash"] = ectx
	}
	op, err := r.Scatter(w.region, "g")
	// (which stores are picked on ties depends on Go's map iteration order: only the error is compared
	// between the symbolic and the native run)
	v.Observe("err", err)
	if op != nil {
		v.Reach("operator")
		c11Apply(w, op)
	}
	v.Reach("end")
}

// VerifC11ScatterTiFlash: the same with a learner on a special-engine (TiFlash) store (params rules=1 tiflash=1).
func VerifC11ScatterTiFlash() { VerifC11Scatter() }
