package schedulers

import (
	"context"

	v "github.com/tikv/pd/pkg/zzvrf"
	"github.com/tikv/pd/server/core"
	"github.com/tikv/pd/server/kv"
	"github.com/tikv/pd/server/schedule"
)

// vrfSchedule: one Schedule call of a built-in scheduler on the C11 world; every operator proposed for
// the region is replayed step by step (c11Apply).
func vrfSchedule(typ string, args []string, forced ...bool) {
	if schedulerCounter == nil { // first touch of a package variable: the package's init functions register the schedulers
		return
	}
	w := c11Build()
	w.forcedLeader = len(forced) > 0 && forced[0]
	ctx := context.Background()
	oc := schedule.NewOperatorController(ctx, w.tc, nil)
	s, err := schedule.CreateScheduler(typ, oc, core.NewStorage(kv.NewMemoryKV()), schedule.ConfigSliceDecoder(typ, args))
	if err != nil {
		v.Assert("scheduler-created", false)
		return
	}
	ops := s.Schedule(w.tc)
	for _, op := range ops {
		if op.RegionID() == w.region.GetID() {
			v.Reach("operator")
			if v.Param("showsteps", 0) == 1 {
				for i := 0; i < op.Len(); i++ {
					v.Observe("step", op.Step(i).String())
				}
			}
			c11Apply(w, op)
		}
	}
	v.Reach("end")
}

func VerifC11BalanceRegion() { vrfSchedule(BalanceRegionType, []string{"", ""}) }
func VerifC11BalanceLeader() { vrfSchedule(BalanceLeaderType, []string{"", ""}) }
func VerifC11ShuffleRegion() { vrfSchedule(ShuffleRegionType, []string{"", ""}) }
func VerifC11ShuffleLeader() { vrfSchedule(ShuffleLeaderType, []string{"", ""}) }
func VerifC11EvictLeader()   { vrfSchedule(EvictLeaderType, []string{"1"}) }
func VerifC11GrantLeader()   { vrfSchedule(GrantLeaderType, []string{"2"}, true) }
func VerifC11Label()         { vrfSchedule(LabelType, []string{"", ""}) }
