package server

import (
	"encoding/json"
	"context"
	"math"

	"github.com/pingcap/kvproto/pkg/pdpb"
	"github.com/tikv/pd/pkg/tsoutil"
	v "github.com/tikv/pd/pkg/zzvrf"
	"github.com/tikv/pd/server/core"
	"github.com/tikv/pd/server/kv"
)

// VerifC15UpdateGC: two UpdateGCSafePoint requests with arbitrary values, one of
// them interrupted at any scheduling point by the other (and both sequential
// orders), from an arbitrary stored safe point. Afterwards the stored value is at
// least every value acknowledged, and every response is at least the value that
// was stored before both began.
func VerifC15UpdateGC() {
	w := vrfNewServer(kv.NewMemoryKV())
	s := w.s
	s0 := uint64(0)
	if v.Choice("hasStored", 2) == 1 {
		s0 = v.Uint64("stored")
		if err := s.storage.SaveGCSafePoint(s0); err != nil {
			v.Assume(false)
		}
	}
	a, b := v.Uint64("reqA"), v.Uint64("reqB")
	var ra, rb *pdpb.UpdateGCSafePointResponse
	var ea, eb error
	opA := func() {
		ra, ea = s.UpdateGCSafePoint(context.Background(), &pdpb.UpdateGCSafePointRequest{Header: vrfHeader(), SafePoint: a})
	}
	opB := func() {
		rb, eb = s.UpdateGCSafePoint(context.Background(), &pdpb.UpdateGCSafePointRequest{Header: vrfHeader(), SafePoint: b})
	}
	v.Interleave(opA, opB)
	v.Assert("no-error-A", ea == nil)
	v.Assert("no-error-B", eb == nil)
	if ea != nil || eb != nil {
		return
	}
	final, err := s.storage.LoadGCSafePoint()
	v.Assert("load-ok", err == nil)
	v.Observe("respA", ra.NewSafePoint)
	v.Observe("respB", rb.NewSafePoint)
	v.Observe("final", final)
	v.Assert("response-A-not-below-earlier-value", ra.NewSafePoint >= s0)
	v.Assert("response-B-not-below-earlier-value", rb.NewSafePoint >= s0)
	v.Assert("stored-not-below-earlier-value", final >= s0)
	// any later request sees max(final, its value); it must not be below what was acknowledged
	v.Assert("stored-not-below-acknowledged-A", final >= ra.NewSafePoint)
	v.Assert("stored-not-below-acknowledged-B", final >= rb.NewSafePoint)
	v.Assert("response-A-covers-request", ra.NewSafePoint >= a)
	v.Assert("response-B-covers-request", rb.NewSafePoint >= b)
	v.Reach("end")
}

var vrfServiceIDs = []string{"gc_worker", "svc-a", "svc-b", "svc-c"}

type vrfEntry struct {
	present   bool
	safePoint uint64
	expiredAt int64
}

// VerifC15Service: one UpdateServiceGCSafePoint request (any service, any TTL incl.
// non-positive and huge, any safe point) on an arbitrary set of registrations.
func VerifC15Service() {
	w := vrfNewServer(kv.NewMemoryKV())
	s := w.s
	nowMs := v.Int64("nowMs")
	v.Assume(v.And(nowMs >= 946684800000, nowMs <= 4102444800000)) // TSO physical in [2000, 2100]
	w.nowTSO = func() (pdpb.Timestamp, error) { return pdpb.Timestamp{Physical: nowMs, Logical: 1}, nil }
	nowT, _ := tsoutil.ParseTimestamp(pdpb.Timestamp{Physical: nowMs, Logical: 1})
	nowSec := nowT.Unix() // the same expression the handler computes
	// pre-state: gc_worker (always infinite) and up to two other services, saved through the real API
	pre := make([]vrfEntry, 4)
	legacy := v.Param("legacy", 0) == 1 // separate entry: gc_worker stored as a legacy record with a finite expiry
	if legacy || v.Choice("hasGCWorker", 2) == 1 {
		pre[0] = vrfEntry{true, v.Uint64("sp0"), math.MaxInt64}
	}
	for i := 1; i <= 2; i++ {
		if legacy && i == 2 {
			break // the legacy entry keeps one other registration (stated bound)
		}
		if v.Choice("has", 2) == 1 {
			pre[i] = vrfEntry{true, v.Uint64("sp"), v.Int64("exp")}
		}
	}
	for i, e := range pre {
		if e.present {
			v.Assume(e.safePoint < math.MaxUint64) // MaxUint64 is the code's "none" marker (stated bound)
			ssp := &core.ServiceSafePoint{ServiceID: vrfServiceIDs[i], SafePoint: e.safePoint, ExpiredAt: e.expiredAt}
			var err error
			if i == 0 && legacy {
				// a gc_worker record left by an older version with a finite (possibly elapsed) expiry:
				// the statement gives gc_worker an unlimited lifetime, so the oracle keeps treating it
				// as live and the code has to repair it. Written below the API, which refuses it.
				ssp.ExpiredAt = v.Int64("exp0")
				val, _ := json.Marshal(ssp)
				err = s.storage.Save("gc/safe_point/service/gc_worker", string(val))
				v.Reach("legacy-gc-worker")
			} else {
				err = s.storage.SaveServiceGCSafePoint(ssp)
			}
			if err != nil {
				v.Assume(false)
			}
		}
	}
	// oracle: minimum over live registrations before the request
	oracleMin := uint64(math.MaxUint64)
	anyLive := false
	for _, e := range pre {
		if e.present && v.ConcreteBool(e.expiredAt >= nowSec) {
			anyLive = true
			if v.ConcreteBool(e.safePoint < oracleMin) {
				oracleMin = e.safePoint
			}
		}
	}
	if !anyLive {
		oracleMin = 0 // gc_worker is initialised to 0
	} else if !pre[0].present {
		// gc_worker is created with the minimum of the live ones
	}
	which := v.Choice("service", 4)
	ttl := v.Int64("ttl")
	sp := v.Uint64("safePoint")
	v.Assume(sp < math.MaxUint64)
	resp, err := s.UpdateServiceGCSafePoint(context.Background(), &pdpb.UpdateServiceGCSafePointRequest{
		Header: vrfHeader(), ServiceId: []byte(vrfServiceIDs[which]), TTL: ttl, SafePoint: sp})
	if which == 0 && ttl <= 0 {
		v.Assert("gc-worker-cannot-be-removed", err != nil)
		v.Reach("gc-worker-remove-refused")
		return
	}
	if which == 0 && ttl > 0 && sp >= oracleMin && v.ConcreteBool(ttl < math.MaxInt64-nowSec) {
		// gc_worker must keep an infinite lifetime: a finite TTL is refused by the storage layer
		v.Assert("gc-worker-finite-ttl-refused", err != nil)
		v.Reach("gc-worker-finite-refused")
		return
	}
	v.Assert("no-error", err == nil)
	if err != nil {
		return
	}
	all, err2 := s.storage.GetAllServiceGCSafePoints()
	v.Assert("list-ok", err2 == nil)
	post := make([]vrfEntry, 4)
	for _, e := range all {
		for i, id := range vrfServiceIDs {
			if e.ServiceID == id {
				post[i] = vrfEntry{true, e.SafePoint, e.ExpiredAt}
			}
		}
	}
	v.Observe("min", resp.MinSafePoint)
	// gc_worker always exists afterwards with unlimited lifetime
	v.Assert("gc-worker-exists", post[0].present)
	if post[0].present {
		v.Assert("gc-worker-unlimited", post[0].expiredAt == math.MaxInt64)
	}
	// a request of another service neither moves nor hides gc_worker's own safe point
	if pre[0].present && which != 0 {
		v.Assert("gc-worker-safe-point-kept", post[0].present && post[0].safePoint == pre[0].safePoint)
		v.Assert("min-not-above-gc-worker", resp.MinSafePoint <= pre[0].safePoint)
	}
	// the reported minimum is not above any live registration
	for i, e := range post {
		if e.present && v.ConcreteBool(e.expiredAt >= nowSec) {
			v.Assert("min-not-above-live-"+vrfServiceIDs[i], resp.MinSafePoint <= e.safePoint)
		}
	}
	// expired registrations (other than the requester's fresh one) are gone
	for i := 1; i <= 2; i++ {
		if i != which && pre[i].present && v.ConcreteBool(pre[i].expiredAt < nowSec) {
			v.Assert("expired-removed-"+vrfServiceIDs[i], !post[i].present)
		}
	}
	// the requester's registration
	if which != 0 {
		if ttl <= 0 {
			v.Assert("non-positive-ttl-removes", !post[which].present)
			v.Reach("removed")
		} else if v.ConcreteBool(sp >= oracleMin) {
			v.Assert("accepted-is-recorded", post[which].present)
			if post[which].present {
				v.Assert("accepted-safe-point", post[which].safePoint == sp)
				wantExp := nowSec + ttl
				if v.ConcreteBool(math.MaxInt64-nowSec <= ttl) {
					wantExp = math.MaxInt64
				}
				v.Assert("accepted-expiry", post[which].expiredAt == wantExp)
				v.Assert("accepted-is-live", post[which].expiredAt >= nowSec)
			}
			v.Reach("accepted")
		} else {
			// below the current minimum: not recorded (an older live registration of the same service stays as it was)
			if pre[which].present && v.ConcreteBool(pre[which].expiredAt >= nowSec) {
				v.Assert("below-min-keeps-old", v.And(post[which].present, post[which].safePoint == pre[which].safePoint, post[which].expiredAt == pre[which].expiredAt))
			} else {
				v.Assert("below-min-not-recorded", !post[which].present)
			}
			v.Reach("below-min")
		}
	}
	v.Reach("end")
}
