package tso

import (
	"context"
	"time"

	"github.com/pingcap/kvproto/pkg/pdpb"
	v "github.com/tikv/pd/pkg/zzvrf"
	"github.com/tikv/pd/pkg/zzvrf/vetcd"
	"github.com/tikv/pd/pkg/typeutil"
	"github.com/tikv/pd/server/election"
)

// Shared harness for C01 (uniqueness / order of timestamps) and C02 (grants stay
// below the durably stored window). Param "prop" selects which obligations are
// evaluated (1 = C01, 2 = C02); the state, invariant and operations are the same.

const (
	vrfRoot      = "/pd/1"
	vrfTSKey     = "/pd/1/timestamp"
	vrfLeaderKey = "/pd/1/leader"
	vrfMaxNs     = int64(1) << 61 // stated bound: all instants before 2043-01 (see VerifTSOSyncFarFuture for later windows)
	vrfMs        = int64(time.Millisecond)
)

type vrfWorld struct {
	store *vetcd.Store
	ls    *election.Leadership
	to    *timestampOracle
	// ghost: largest timestamp granted so far (physical in ms, logical)
	gp, gl int64
}

func vrfStoredWindow(s *vetcd.Store) int64 {
	if !s.Has(vrfTSKey) {
		return 0
	}
	u, _ := typeutil.BytesToUint64(s.Value(vrfTSKey))
	return int64(u)
}

func (w *vrfWorld) physNs() int64 { return w.to.tsoMux.physical.UnixNano() }
func (w *vrfWorld) physMs() int64 { return w.to.tsoMux.physical.UnixNano() / vrfMs }
func (w *vrfWorld) inited() bool   { return w.to.tsoMux.physical != typeutil.ZeroTime }
func (w *vrfWorld) savedNs() int64 { return w.to.lastSavedTime.Load().(time.Time).UnixNano() }

// lexGE: (p1,l1) >= (p2,l2)
func lexGE(p1, l1, p2, l2 int64) bool { return v.Or(p1 > p2, v.And(p1 == p2, l1 >= l2)) }
func lexGT(p1, l1, p2, l2 int64) bool { return v.Or(p1 > p2, v.And(p1 == p2, l1 > l2)) }

// The invariant carried between operations (see DESIGN.md C01/C02):
//  I1  lastSaved <= stored window
//  I2  initialised => physical + guard < lastSaved   (hence physical < stored window)
//  I3  initialised => (physical_ms, logical) >= largest granted timestamp, logical >= 0
//  I4  largest granted physical (ms) * 1e6 < stored window
// vrfBounds are the stated value ranges (assumed for the pre-state, not obligations).
func vrfBounds(w *vrfWorld) bool {
	S := vrfStoredWindow(w.store)
	W := w.savedNs()
	b := v.And(W >= 0, S >= 0, S <= vrfMaxNs, w.gp >= 0, w.gp <= int64(1)<<42, w.gl >= 0, w.gl < maxLogical)
	if !w.inited() {
		return b
	}
	return v.And(b, W <= vrfMaxNs, w.physNs() >= 0, w.physNs() <= vrfMaxNs, w.to.tsoMux.logical <= int64(1)<<40)
}

func vrfInvParts(w *vrfWorld) (i1, i2, i3, i4 bool) {
	S := vrfStoredWindow(w.store)
	W := w.savedNs()
	i1 = W <= S
	i4 = w.gp*1000000 < S
	i2, i3 = true, true
	if w.inited() {
		i2 = w.physNs()+int64(UpdateTimestampGuard) < W
		i3 = v.And(w.to.tsoMux.logical >= 0, lexGE(w.physMs(), w.to.tsoMux.logical, w.gp, w.gl))
	}
	return
}

func vrfInv(w *vrfWorld) bool {
	i1, i2, i3, i4 := vrfInvParts(w)
	return v.And(vrfBounds(w), i1, i2, i3, i4)
}

func vrfAssertInv(w *vrfWorld, tag string) {
	i1, i2, i3, i4 := vrfInvParts(w)
	v.Assert(tag+"-I1-lastSaved-le-stored", i1)
	v.Assert(tag+"-I2-physical-below-lastSaved", i2)
	v.Assert(tag+"-I3-memory-above-granted", i3)
	v.Assert(tag+"-I4-granted-below-stored", i4)
}

// vrfWorldArbitrary: a member that campaigned successfully (real Campaign over the
// etcd model) with an oracle in an arbitrary state satisfying the invariant.
// leaderMode: 0 still owns the leader record, 1 record taken over by another member,
// 2 record deleted. The local lease may or may not have expired (clock is symbolic).
func vrfWorldArbitrary(needInit int) *vrfWorld {
	s := vetcd.New()
	c := s.Client()
	// a leadership as a successful Campaign leaves it; the local lease expires at an arbitrary instant
	var ls *election.Leadership
	if needInit == 3 {
		// concurrent entries: a valid leader throughout (lease expires after every clock reading)
		needInit = 1
		ls = election.VerifLeadership(c, vrfLeaderKey, "member-1", 7, time.Unix(0, int64(1)<<62))
		s.SetRaw(vrfLeaderKey, []byte("member-1"))
	} else {
		ls = election.VerifLeadership(c, vrfLeaderKey, "member-1", 7, time.Unix(0, v.Int64("leaseExpire")))
		switch v.Choice("leaderMode", 3) {
		case 0:
			s.SetRaw(vrfLeaderKey, []byte("member-1"))
		case 1:
			s.SetRaw(vrfLeaderKey, []byte("member-2"))
		}
	}
	si := v.Int64("saveInterval")
	v.Assume(v.And(si > int64(UpdateTimestampGuard), si <= int64(time.Hour)))
	gap := v.Int64("maxResetTSGap")
	v.Assume(v.And(gap >= int64(time.Millisecond), gap <= int64(240*time.Hour)))
	to := &timestampOracle{
		client:                 c,
		rootPath:               vrfRoot,
		saveInterval:           time.Duration(si),
		updatePhysicalInterval: 50 * time.Millisecond,
		maxResetTSGap:          func() time.Duration { return time.Duration(gap) },
		tsoMux:                 &tsoObject{},
		suffix:                 0,
		dcLocation:             GlobalDCLocation,
	}
	w := &vrfWorld{store: s, ls: ls, to: to}
	S := v.Int64("storedWindow")
	s.SetRaw(vrfTSKey, typeutil.Uint64ToBytes(uint64(S)))
	to.lastSavedTime.Store(time.Unix(0, v.Int64("lastSaved")))
	initialised := needInit == 1
	if needInit == 2 {
		initialised = v.Choice("initialised", 2) == 1
	}
	if initialised {
		to.tsoMux.physical = time.Unix(0, v.Int64("physical"))
		to.tsoMux.logical = v.Int64("logical")
	}
	w.gp, w.gl = v.Int64("grantedPhysical"), v.Int64("grantedLogical")
	v.Assume(vrfInv(w))
	return w
}

func (w *vrfWorld) faults(n int) {
	left := n
	w.store.FaultFn = func(op string) int {
		if left > 0 {
			k := v.Choice("fault", 3)
			if k != 0 {
				left--
			}
			return k
		}
		return vetcd.FaultNone
	}
}

// grantChecks: obligations on a successful grant (p ms, l) for count values.
func (w *vrfWorld) grantChecks(prop int, ts pdpb.Timestamp, count uint32, storedAtGrant int64) {
	p, l := ts.Physical, ts.Logical
	first := l - int64(count) + 1
	if prop == 1 {
		v.Assert("grant-logical-fits-18-bits", v.And(l > 0, l < maxLogical))
		v.Assert("grant-first-value-positive", first >= 1)
		v.Assert("grant-above-everything-granted-before", lexGT(p, first, w.gp, w.gl))
	} else {
		v.Assert("grant-physical-below-stored-window", p*1000000 < storedAtGrant)
	}
	w.gp, w.gl = p, l
}

// VerifTSOStep: one operation from an arbitrary invariant state.
func VerifTSOStep() {
	prop := v.Param("prop", 1)
	op := v.Choice("op", 4)
	need := 2
	if op == 1 || op == 2 {
		// UpdateTimestamp is only scheduled for initialised allocators (FilterUninitialized);
		// user resets are applied to a serving (initialised) allocator
		need = 1
	}
	w := vrfWorldArbitrary(need)
	s, to := w.store, w.to
	S0 := vrfStoredWindow(s)
	W0 := w.savedNs()
	wasInit := w.inited()
	var P0, L0 int64
	if wasInit {
		P0, L0 = w.physNs(), to.tsoMux.logical
	}
	w.faults(v.Param("faults", 1))
	var err error
	switch op {
	case 0:
		count := v.Uint32("count")
		var ts pdpb.Timestamp
		ts, err = to.getTS(w.ls, count, 0)
		if err == nil {
			w.grantChecks(prop, ts, count, vrfStoredWindow(s))
			v.Reach("granted")
		}
	case 1:
		err = to.UpdateTimestamp(w.ls)
		if err == nil {
			v.Reach("updated")
		}
	case 2:
		resetTo := v.Uint64("resetTo")
		v.Assume(resetTo>>18 <= uint64(1)<<43) // stated bound: reset targets before year 2248 (ms*1e6 fits int64)
		err = to.resetUserTimestamp(w.ls, resetTo, v.Choice("ignoreSmaller", 2) == 1)
		if err == nil {
			v.Reach("reset-accepted")
		}
	case 3:
		to.ResetTimestamp()
	}
	s.FaultFn = nil
	S1 := vrfStoredWindow(s)
	v.Observe("err", err)
	v.Observe("inited", w.inited())
	if w.inited() {
		v.Observe("physical", w.physNs())
		v.Observe("logical", to.tsoMux.logical)
	}
	v.Observe("lastSaved", w.savedNs())
	v.Observe("stored", S1)
	if prop == 2 {
		// every write is at least the last acknowledged window (a reply-lost write may sit above it)
		v.Assert("stored-window-never-below-acknowledged", S1 >= W0)
		if W0 == S0 {
			v.Assert("stored-window-monotone", S1 >= S0)
		}
		if err != nil && wasInit && w.inited() {
			v.Assert("failed-op-does-not-advance-memory", v.And(w.physNs() == P0, to.tsoMux.logical >= L0))
		}
		if err != nil && op != 0 {
			v.Reach("op-failed")
		}
	}
	vrfAssertInv(w, "inv")
	v.Reach("end")
}

// VerifTSOSync: a fresh oracle (new leader, or the same member after a restart)
// synchronises from any store content left behind by any history, with any clock.
func VerifTSOSync() {
	prop := v.Param("prop", 1)
	old := vrfWorldArbitrary(2)
	s := old.store
	fresh := &timestampOracle{
		client: old.to.client, rootPath: vrfRoot, saveInterval: old.to.saveInterval,
		updatePhysicalInterval: 50 * time.Millisecond, maxResetTSGap: old.to.maxResetTSGap,
		tsoMux: &tsoObject{}, dcLocation: GlobalDCLocation,
	}
	w := &vrfWorld{store: s, ls: old.ls, to: fresh, gp: old.gp, gl: old.gl}
	S0 := vrfStoredWindow(s)
	w.faults(v.Param("faults", 1))
	err := fresh.SyncTimestamp(w.ls)
	s.FaultFn = nil
	v.Observe("err", err)
	v.Observe("inited", w.inited())
	if w.inited() {
		v.Observe("physical", w.physNs())
	}
	v.Observe("stored", vrfStoredWindow(s))
	if err != nil {
		v.Assert("failed-sync-leaves-oracle-uninitialised", !w.inited())
		if prop == 2 {
			v.Assert("sync-stored-window-monotone", vrfStoredWindow(s) >= S0)
		}
		v.Reach("sync-failed")
		return
	}
	v.Assert("sync-initialises", w.inited())
	if prop == 2 {
		v.Assert("sync-stored-window-monotone", vrfStoredWindow(s) >= S0)
		v.Assert("sync-physical-below-window", w.physNs() < vrfStoredWindow(s))
	}
	vrfAssertInv(w, "sync-inv")
	// first grant after the hand-over
	count := v.Uint32("count")
	ts, err2 := fresh.getTS(w.ls, count, 0)
	if err2 == nil {
		w.grantChecks(prop, ts, count, vrfStoredWindow(s))
		v.Reach("granted-after-sync")
	}
	v.Reach("end")
}

func vrfDisjoint(a pdpb.Timestamp, ca uint32, b pdpb.Timestamp, cb uint32) bool {
	// ranges (l-c, l] at equal physical parts must not intersect
	return v.Or(a.Physical != b.Physical, a.Logical <= b.Logical-int64(cb), b.Logical <= a.Logical-int64(ca))
}

// VerifTSOPar: two operations run concurrently from an arbitrary initialised
// invariant state: one of them is interrupted at any of its scheduling points
// (Lock/RLock, atomic.Value Load/Store, etcd operation made by PD code) by the
// other, which runs to completion (both role assignments); param par=1 uses the
// general thread scheduler with a preemption bound instead.
func VerifTSOPar() {
	prop := v.Param("prop", 1)
	pair := v.Param("onlyPair", -1)
	if pair < 0 {
		pair = v.Choice("pair", v.Param("pairs", 5))
	}
	w := vrfWorldArbitrary(3)
	s, to := w.store, w.to
	W0 := w.savedNs()
	gp0, gl0 := w.gp, w.gl
	var ts1, ts2 pdpb.Timestamp
	var e1, e2 error
	c1, c2 := v.Uint32("count1"), v.Uint32("count2")
	grant1 := func() { ts1, e1 = to.getTS(w.ls, c1, 0) }
	grant2 := func() { ts2, e2 = to.getTS(w.ls, c2, 0) }
	update := func() { e2 = to.UpdateTimestamp(w.ls) }
	resetTo := v.Uint64("resetTo")
	v.Assume(resetTo>>18 <= uint64(1)<<43)
	reset := func() { e2 = to.resetUserTimestamp(w.ls, resetTo, false) }
	g2 := false
	// each pair in both roles: which operation is interrupted and which interferes atomically
	inter := v.Interleave
	if v.Param("par", 0) == 1 {
		inter = func(a, b func()) { v.Par(a, b) }
	}
	swap := v.Choice("swapRoles", 2) == 1
	run := func(a, b func()) {
		if swap {
			inter(b, a)
		} else {
			inter(a, b)
		}
	}
	switch pair {
	case 0:
		run(grant1, grant2)
		g2 = true
	case 1:
		run(grant1, update)
	case 2:
		run(grant1, reset)
	case 3:
		e1 = errNotRun
		run(update, func() { e1 = to.resetUserTimestamp(w.ls, resetTo, false) })
	case 4:
		run(grant1, func() { to.ResetTimestamp() })
	}
	v.Observe("e1", e1)
	v.Observe("e2", e2)
	v.Observe("physical", w.physNs())
	v.Observe("logical", to.tsoMux.logical)
	v.Observe("lastSaved", w.savedNs())
	v.Observe("stored", vrfStoredWindow(s))
	ok1 := e1 == nil && pair != 3
	ok2 := e2 == nil && g2
	if prop == 1 {
		if ok1 {
			v.Assert("par-grant1-fits", v.And(ts1.Logical > 0, ts1.Logical < maxLogical))
			v.Assert("par-grant1-above-earlier", lexGT(ts1.Physical, ts1.Logical-int64(c1)+1, gp0, gl0))
			v.Reach("par-granted")
		}
		if ok2 {
			v.Assert("par-grant2-above-earlier", lexGT(ts2.Physical, ts2.Logical-int64(c2)+1, gp0, gl0))
		}
		if ok1 && ok2 {
			v.Assert("par-grants-disjoint", vrfDisjoint(ts1, c1, ts2, c2))
			v.Reach("par-both-granted")
		}
	}
	// ghost: the largest granted timestamp
	if ok1 {
		w.gp, w.gl = ts1.Physical, ts1.Logical
	}
	if ok2 && v.ConcreteBool(lexGT(ts2.Physical, ts2.Logical, w.gp, w.gl)) {
		w.gp, w.gl = ts2.Physical, ts2.Logical
	}
	if prop == 2 {
		v.Assert("par-stored-window-never-below-acknowledged", vrfStoredWindow(s) >= W0)
	}
	vrfAssertInv(w, "par-inv")
	v.Reach("end")
}

var errNotRun = errNotRunT{}

type errNotRunT struct{}

func (errNotRunT) Error() string { return "not run" }

// VerifTSOUpdater: one round of AllocatorManager.updateAllocator (what the allocator daemon runs every
// updatePhysicalInterval) on the global allocator from an arbitrary invariant state with an etcd fault: either
// the update succeeds and the invariants hold, or the allocator group is reset - memory zeroed and the
// leadership given up - so that nothing is granted from the old memory any more.
func VerifTSOUpdater() {
	w := vrfWorldArbitrary(1)
	to := w.to
	am := &AllocatorManager{}
	gta := &GlobalTSOAllocator{allocatorManager: am, leadership: w.ls, timestampOracle: to}
	ag := &allocatorGroup{dcLocation: GlobalDCLocation, ctx: context.Background(), leadership: w.ls, allocator: gta}
	am.mu.allocatorGroups = map[string]*allocatorGroup{GlobalDCLocation: ag}
	am.mu.clusterDCLocations = map[string]*DCLocationInfo{}
	hadLease := w.ls.Check()
	W0 := w.savedNs()
	S0 := vrfStoredWindow(w.store)
	w.faults(v.Param("faults", 1))
	failed := false
	inner := w.store.FaultFn
	w.store.FaultFn = func(op string) int {
		k := inner(op)
		if k != 0 {
			failed = true
		}
		return k
	}
	am.wg.Add(1)
	am.updateAllocator(ag)
	w.store.FaultFn = nil
	v.Observe("inited", w.inited())
	if w.inited() {
		v.Reach("kept")
		vrfAssertInv(w, "inv")
		v.Assert("stored-window-never-below-acknowledged", vrfStoredWindow(w.store) >= W0)
	} else {
		v.Reach("reset")
		// reset only happens on a failed update of a leaseholder; afterwards the lease is given up
		own := string(w.store.Value(vrfLeaderKey)) == "member-1"
		v.Assert("reset-only-after-a-failed-update", v.Or(failed, !hadLease, !own))
		ts, err := gta.GenerateTSO(1)
		v.Assert("nothing-granted-after-reset", err != nil && ts.Physical == 0)
	}
	if failed && hadLease && W0 == S0 {
		v.Reach("failed")
	}
	v.Reach("end")
}
