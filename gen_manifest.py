#!/usr/bin/env python3
"""Regenerates MANIFEST.json from checks.json + manifest_meta.json (levels, notes, not_applicable reasons)."""
import json
checks = json.load(open('/verif/checks.json'))
meta = json.load(open('/verif/manifest_meta.json'))
props = [json.loads(l) for l in open('/verif/properties.jsonl')]
out = {
 "version": 1,
 "setup_cmd": "cd /verif/engine && GOFLAGS=-mod=mod GOPROXY=off GOSUMDB=off GOTOOLCHAIN=local go build -o /verif/bin/gosmt ./cmd/gosmt",
 "hooks": {"guard": "verif", "enable": "no hooks are committed to /repo: harnesses and environment models are injected with go/packages overlays (symbolic run) and `go test -overlay` (native replay)",
           "baseline_off_cmd": json.load(open('/root/.vp/BASELINE.json'))["cmd"], "source_commits": [], "add_only": True},
 "engines": [{"name": "gosmt", "path": "/verif/engine", "serves_properties": sorted(checks.keys()),
              "kind_free_text": "symbolic executor for go/ssa (derived from x/tools/go/ssa/interp) with bit-vector SMT back ends (z3, cvc5 int-blasting), re-execution path exploration, cooperative thread scheduler, native replay of solver models"}],
 "checks": [], "not_applicable": [],
 "notes": meta.get("notes", "")
}
for p in props:
    pid = p["id"]
    if pid in checks and pid in meta["claimed"]:
        m = meta["claimed"][pid]
        out["checks"].append({
            "property_id": pid,
            "quick_cmd": f"./check {pid} quick",
            "thorough_cmd": f"./check {pid} thorough",
            "evidence_file": f"/verif/evidence/{pid}.json",
            "replay_cmd_template": "./check --replay {path}",
            "engine": "gosmt",
            "level_claimed": {"category": "model_checking", "text": m["text"], "design_ref": m.get("design_ref", "DESIGN.md §6 " + pid)},
            "level_note": m["note"],
            "technique": m.get("technique", "bounded symbolic execution of the real Go functions (go/ssa -> SMT bit-vectors), obligations discharged by cvc5/z3, counterexamples replayed natively"),
        })
    else:
        out["not_applicable"].append({"property_id": pid, "reason": meta["not_applicable"].get(pid, "no solver-based check has been built for this property yet (work in progress); not claimed")})
json.dump(out, open('/verif/MANIFEST.json', 'w'), indent=1)
print("claimed:", [c["property_id"] for c in out["checks"]])
