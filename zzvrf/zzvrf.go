// Package zzvrf is the harness API of the /verif machinery. It is injected by
// overlay as github.com/tikv/pd/pkg/zzvrf; it is never committed to /repo.
//
// Under the symbolic executor (gosmt) every function here is intercepted and
// its body is ignored. Compiled natively (counterexample replay and path
// cross-validation) the bodies below read the concrete values of all
// nondeterministic inputs from the model file named by VERIF_MODEL.
package zzvrf

import (
	"bytes"
	"encoding/json"
	"fmt"
	"math"
	"os"
	"reflect"
	"sort"
	"strings"
	"sync"
)

type modelFile struct {
	Model map[string]uint64 `json:"model"`
	Sched []int             `json:"sched"`
}

var (
	mu       sync.Mutex
	model    map[string]uint64
	counts   = map[string]int{}
	Failures []string
	Observed []string
	Reached  []string
)

// Load reads a model (values of nondeterministic inputs).
func Load(path string) error {
	data, err := os.ReadFile(path)
	if err != nil {
		return err
	}
	var mf modelFile
	if err := json.Unmarshal(data, &mf); err != nil {
		return err
	}
	SetModel(mf.Model)
	return nil
}

// SetModel installs a model and clears all recorded state.
func SetModel(m map[string]uint64) {
	mu.Lock()
	defer mu.Unlock()
	model = m
	counts = map[string]int{}
	Failures, Observed, Reached = nil, nil, nil
	FixedClockNs = 0
}

func next(name string) uint64 {
	mu.Lock()
	defer mu.Unlock()
	n := counts[name]
	counts[name] = n + 1
	return model[fmt.Sprintf("%s#%d", name, n)]
}

// Raw returns the model value of the next instance of name (used by env hooks).
func Raw(name string) uint64 { return next(name) }

func Uint64(name string) uint64 { return next(name) }
func Int64(name string) int64   { return int64(next(name)) }
func Uint32(name string) uint32 { return uint32(next(name)) }
func Int32(name string) int32   { return int32(next(name)) }
func Int(name string) int       { return int(next(name)) }
func Byte(name string) byte     { return byte(next(name)) }
func Bool(name string) bool     { return next(name) != 0 }

// Float64 returns a symbolic float64 (given by its IEEE-754 bit pattern in the model).
func Float64(name string) float64 { return math.Float64frombits(next(name)) }

// IntRange returns a symbolic int in [lo, hi].
func IntRange(name string, lo, hi int) int { return int(next(name)) }

// Choice returns a concrete value in [0, n); the executor forks per value.
func Choice(name string, n int) int { return int(next(name)) }

// Bytes returns n symbolic bytes.
func Bytes(name string, n int) []byte {
	out := make([]byte, n)
	for i := range out {
		out[i] = byte(next(fmt.Sprintf("%s[%d]", name, i)))
	}
	return out
}

type assumeFailed struct{}

// Assume restricts the inputs; natively a false assumption means the model
// does not belong to this harness (reported as a replay mismatch).
func Assume(c bool) {
	if !c {
		mu.Lock()
		Failures = append(Failures, "ASSUME-FALSE")
		mu.Unlock()
		panic(assumeFailed{})
	}
}

// Assert states a property obligation.
func Assert(label string, c bool) {
	if !c {
		mu.Lock()
		Failures = append(Failures, label)
		mu.Unlock()
	}
}

func Reach(label string) {
	mu.Lock()
	Reached = append(Reached, label)
	mu.Unlock()
}

// Observe records a scalar / string / []byte / error-nilness for cross-validation.
func Observe(label string, v interface{}) {
	var s string
	switch x := v.(type) {
	case nil:
		s = "\"<nil>\""
	case error:
		s = "\"<error>\""
	case string:
		s = fmt.Sprintf("%q", x)
	case []byte:
		parts := make([]string, len(x))
		for i, b := range x {
			parts[i] = fmt.Sprint(b)
		}
		s = "[" + strings.Join(parts, " ") + "]"
	default:
		s = fmt.Sprint(x)
	}
	mu.Lock()
	Observed = append(Observed, label+"="+s)
	mu.Unlock()
}

func And(cs ...bool) bool {
	for _, c := range cs {
		if !c {
			return false
		}
	}
	return true
}

func Or(cs ...bool) bool {
	for _, c := range cs {
		if c {
			return true
		}
	}
	return false
}

func Not(c bool) bool        { return !c }
func Implies(a, b bool) bool { return !a || b }
func Iff(a, b bool) bool     { return a == b }

func IteU64(c bool, a, b uint64) uint64 {
	if c {
		return a
	}
	return b
}
func IteI64(c bool, a, b int64) int64 {
	if c {
		return a
	}
	return b
}
func IteInt(c bool, a, b int) int {
	if c {
		return a
	}
	return b
}
func IteBool(c bool, a, b bool) bool {
	if c {
		return a
	}
	return b
}

// Concrete forces a concrete value (the executor enumerates feasible values).
func Concrete(x int) int          { return x }
func ConcreteU64(x uint64) uint64 { return x }
func ConcreteBool(x bool) bool    { return x }

// Symbolic reports whether the harness runs under the symbolic executor.
func Symbolic() bool { return false }

func BytesEq(a, b []byte) bool   { return bytes.Equal(a, b) }
func BytesLess(a, b []byte) bool { return bytes.Compare(a, b) < 0 }
func StrEq(a, b string) bool     { return a == b }

// Yield is a scheduling point.
func Yield() { schedPoint() }

// Par runs the closures as concurrent threads. Natively the recorded schedule
// is replayed when a scheduler hook is installed; otherwise they run in order.
func Par(fs ...func()) { runPar(fs) }

// Summary returns the sorted failure labels (deduplicated).
func Summary() []string {
	mu.Lock()
	defer mu.Unlock()
	seen := map[string]bool{}
	var out []string
	for _, f := range Failures {
		if !seen[f] {
			seen[f] = true
			out = append(out, f)
		}
	}
	sort.Strings(out)
	return out
}

var params map[string]int

// SetParams installs the tier parameters (bounds) of the run.
func SetParams(p map[string]int) { params = p }

// Param returns a bound chosen by the check configuration (concrete).
func Param(name string, def int) int {
	if x, ok := params[name]; ok {
		return x
	}
	return def
}

func IsAssumeFailed(p interface{}) bool { _, ok := p.(assumeFailed); return ok }

func GetObserved() []string {
	mu.Lock()
	defer mu.Unlock()
	return append([]string(nil), Observed...)
}

func GetReached() []string {
	mu.Lock()
	defer mu.Unlock()
	return append([]string(nil), Reached...)
}

// DeepEqual is reflect.DeepEqual; under the executor the result may be symbolic.
func DeepEqual(a, b interface{}) bool { return reflect.DeepEqual(a, b) }

// FixedClockNs, when non-zero, is the instant every clock reading taken by PD code returns.
var FixedClockNs int64

// FixClock pins the clock seen by PD code to the given unix nanoseconds (0 = back to symbolic readings).
func FixClock(ns int64) { FixedClockNs = ns }
