//go:build verifnative

package zzvrf

import (
	"fmt"
	"runtime"
	"strings"
	"time"
)

// Native replay of the symbolic clock: time.Now (patched by overlay, see
// gosmt's native runner) asks this hook for the k-th reading recorded in the
// solver model (clk.wall#k, clk.mono#k). Readings the model does not contain
// fall back to the real clock.
func init() {
	time.VerifNowHook = func() (int64, int64, bool) {
		if !nowEligible() {
			return 0, 0, false // library code (e.g. log timestamps) sees the real clock
		}
		if ClockSchedHook != nil {
			ClockSchedHook()
		}
		if FixedClockNs != 0 {
			// the monotonic reading follows the fixed wall clock (same formula as the executor's clock model)
			return FixedClockNs, FixedClockNs - 946684800*1000000000 + 1, true
		}
		mu.Lock()
		defer mu.Unlock()
		if model == nil {
			return 0, 0, false
		}
		k := counts["clk"]
		w, ok := model[fmt.Sprintf("clk.wall#%d", k)]
		if !ok {
			return 0, 0, false
		}
		counts["clk"] = k + 1
		if dbgLevel >= 1 {
			var pcs [6]uintptr
			n := runtime.Callers(2, pcs[:])
			fr := runtime.CallersFrames(pcs[:n])
			var names []string
			for {
				f, more := fr.Next()
				names = append(names, f.Function)
				if !more {
					break
				}
			}
			println("native clock", k, strings.Join(names, " <- "))
		}
		return int64(w), int64(model[fmt.Sprintf("clk.mono#%d", k)]), true
	}
}

// nowEligible: only clock readings taken directly by github.com/tikv/pd/... code are
// part of the model (the executor never runs the logging libraries).
func nowEligible() bool {
	var pcs [16]uintptr
	n := runtime.Callers(2, pcs[:])
	frames := runtime.CallersFrames(pcs[:n])
	for {
		f, more := frames.Next()
		name := f.Function
		if !strings.HasPrefix(name, "time.") && !strings.Contains(name, "zzvrf.init") && !strings.Contains(name, "zzvrf.nowEligible") {
			return strings.HasPrefix(name, "github.com/tikv/pd/")
		}
		if !more {
			return false
		}
	}
}
