//go:build verifnative

package zzvrf

import (
	"fmt"
	"time"
)

// Native replay of the symbolic clock: time.Now (patched by overlay, see
// gosmt's native runner) asks this hook for the k-th reading recorded in the
// solver model (clk.wall#k, clk.mono#k). Readings the model does not contain
// fall back to the real clock.
func init() {
	time.VerifNowHook = func() (int64, int64, bool) {
		mu.Lock()
		defer mu.Unlock()
		if model == nil {
			return 0, 0, false
		}
		k := counts["clk"]
		w, ok := model[fmt.Sprintf("clk.wall#%d", k)]
		if !ok {
			return 0, 0, false
		}
		counts["clk"] = k + 1
		return int64(w), int64(model[fmt.Sprintf("clk.mono#%d", k)]), true
	}
}
