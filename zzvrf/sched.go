package zzvrf

// Native scheduling support: without a recorded schedule the threads run
// sequentially in order. (Deterministic schedule replay is installed by
// the replay runner through SchedHook.)

var SchedHook func()

// ClockSchedHook is called by the native clock hook before a reading is taken.
var ClockSchedHook func()
var ParHook func(fs []func())

func schedPoint() {
	if SchedHook != nil {
		SchedHook()
	}
}

func runPar(fs []func()) {
	if ParHook != nil {
		ParHook(fs)
		return
	}
	for _, f := range fs {
		f()
	}
}

var sched []int

// SetSched installs the recorded thread schedule of a counterexample.
func SetSched(s []int) { sched = s }

// InterleaveHook is installed by the native replay scheduler.
var InterleaveHook func(main, other func())

// Interleave runs main; other runs to completion exactly once, either at one of
// main's scheduling points or after main has finished (all placements are
// explored by the executor; natively the recorded placement is replayed, and
// without a recorded schedule other runs after main).
func Interleave(main, other func()) {
	if InterleaveHook != nil && len(sched) == 1 {
		InterleaveHook(main, other)
		return
	}
	main()
	other()
}

var noSched []string

// SetNoSched lists packages whose synchronisation calls are not scheduling points.
func SetNoSched(p []string) { noSched = p }
