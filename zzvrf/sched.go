package zzvrf

// Native scheduling support: without a recorded schedule the threads run
// sequentially in order. (Deterministic schedule replay is installed by
// the replay runner through SchedHook.)

var SchedHook func()
var ParHook func(fs []func())

func schedPoint() {
	if SchedHook != nil {
		SchedHook()
	}
}

func runPar(fs []func()) {
	if ParHook != nil {
		ParHook(fs)
		return
	}
	for _, f := range fs {
		f()
	}
}

var sched []int

// SetSched installs the recorded thread schedule of a counterexample.
func SetSched(s []int) { sched = s }
