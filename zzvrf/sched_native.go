//go:build verifnative

package zzvrf

import (
	"fmt"
	"os"
	"runtime"
	"strconv"
	"strings"
	"sync"
	"sync/atomic"
)

// Deterministic replay of a recorded thread schedule (DESIGN.md §4.2). The
// executor logs, for every scheduling event (Par start, every scheduling point
// of a harness thread, every thread exit), the id of the thread that runs next.
// Natively the harness threads are goroutines passing a baton; the same
// scheduling points are reached through hooks in patched copies of
// sync.Mutex/RWMutex, atomic.Value and time.Now (overlay only) and through
// Yield(). Only calls made directly from github.com/tikv/pd/... code count.

var (
	schedActive atomic.Bool
	schedMu     sync.Mutex // protects the maps below (not held while parked)
	gids        = map[int64]int{}
	wake        = map[int]chan struct{}{}
	schedPos    int
	schedBroken string
)

func curGID() int64 {
	var buf [64]byte
	n := runtime.Stack(buf[:], false)
	s := string(buf[:n])
	s = strings.TrimPrefix(s, "goroutine ")
	if i := strings.IndexByte(s, ' '); i > 0 {
		id, _ := strconv.ParseInt(s[:i], 10, 64)
		return id
	}
	return -1
}

// eligibleCaller: is the first frame outside sync / sync/atomic / time / this
// hook code a function of github.com/tikv/pd/... ?
func eligibleCaller() bool {
	var pcs [16]uintptr
	n := runtime.Callers(3, pcs[:])
	frames := runtime.CallersFrames(pcs[:n])
	prims := 0 // frames of sync / sync/atomic / time seen so far (the primitive itself is the first)
	for {
		f, more := frames.Next()
		name := f.Function
		switch {
		case strings.HasPrefix(name, "sync."), strings.HasPrefix(name, "sync/atomic."):
			prims++
			if prims > 1 {
				return false // a primitive called by another primitive (RWMutex.Lock -> Mutex.Lock) is not a point of its own
			}
		case strings.HasPrefix(name, "time."):
		case strings.HasPrefix(name, "github.com/tikv/pd/pkg/zzvrf.") && (strings.Contains(name, "schedHook") || strings.Contains(name, "ilPoint")):
		case strings.HasPrefix(name, "github.com/tikv/pd/pkg/zzvrf."):
			return false // the harness library's own locking is never a scheduling point
		default:
			if !strings.HasPrefix(name, "github.com/tikv/pd/") {
				return false
			}
			for _, p := range noSched {
				if strings.HasPrefix(name, p+".") {
					return false
				}
			}
			return true
		}
		if !more {
			return false
		}
	}
}

func threadID() (int, bool) {
	g := curGID()
	schedMu.Lock()
	id, ok := gids[g]
	schedMu.Unlock()
	return id, ok
}

// schedHook is installed into sync and sync/atomic.
var dbgLevel = func() int { n, _ := strconv.Atoi(os.Getenv("VERIF_SCHEDDBG")); return n }()

var (
	ilActive atomic.Bool
	ilGID    int64
	ilIdx    int
	ilFire   int
	ilFired  bool
	ilIn     bool
	ilOther  func()
)

// ilPoint: one scheduling point of the main operation of an Interleave.
func ilPoint(checkCaller bool) {
	if curGID() != ilGID || ilIn || ilFired {
		return
	}
	if checkCaller && !eligibleCaller() {
		return
	}
	idx := ilIdx
	ilIdx++
	if dbgLevel >= 1 {
		var pcs [8]uintptr
		n := runtime.Callers(2, pcs[:])
		fr := runtime.CallersFrames(pcs[:n])
		var names []string
		for {
			f, more := fr.Next()
			names = append(names, f.Function)
			if !more {
				break
			}
		}
		fmt.Fprintf(os.Stderr, "native schedpoint %d fire=%d %v\n", idx, ilFire, names)
	}
	if idx == ilFire {
		ilFired, ilIn = true, true
		ilOther()
		ilIn = false
	}
}

func schedHook() {
	if ilActive.Load() && dbgLevel == 2 && curGID() == ilGID && !ilIn {
		var pcs [6]uintptr
		n := runtime.Callers(2, pcs[:])
		fr := runtime.CallersFrames(pcs[:n])
		var names []string
		for {
			f, more := fr.Next()
			names = append(names, f.Function)
			if !more {
				break
			}
		}
		fmt.Fprintf(os.Stderr, "hook call %v\n", names)
	}
	if ilActive.Load() {
		ilPoint(true)
		return
	}
	if !schedActive.Load() {
		return
	}
	id, ok := threadID()
	if !ok || !eligibleCaller() {
		return
	}
	schedStep(id)
}

// schedStep consumes one schedule entry on behalf of thread id.
func schedStep(id int) {
	schedMu.Lock()
	if schedPos >= len(sched) {
		schedBroken = "schedule log exhausted"
		schedMu.Unlock()
		return
	}
	next := sched[schedPos]
	schedPos++
	var nw, mw chan struct{}
	if next != id {
		nw, mw = wake[next], wake[id]
	}
	schedMu.Unlock()
	if next != id {
		if nw == nil {
			schedBroken = "schedule names an unknown thread"
			return
		}
		nw <- struct{}{}
		<-mw
	}
}

func init() {
	sync.VerifSyncHook = schedHook
	atomic.VerifValueHook = schedHook
	InterleaveHook = func(main, other func()) {
		ilGID, ilIdx, ilFire, ilFired, ilIn, ilOther = curGID(), 0, sched[0], false, false, other
		ilActive.Store(true)
		defer ilActive.Store(false)
		main()
		if !ilFired {
			if ilFire != -1 {
				mu.Lock()
				Failures = append(Failures, "SCHEDULE-REPLAY-DIVERGED: interleave point not reached")
				mu.Unlock()
			}
			ilFired, ilIn = true, true
			other()
			ilIn = false
		}
	}
	SchedHook = func() { // Yield()
		if ilActive.Load() {
			ilPoint(false)
			return
		}
		if !schedActive.Load() {
			return
		}
		if id, ok := threadID(); ok {
			schedStep(id)
		}
	}
	ClockSchedHook = func() {
		if !schedActive.Load() {
			return
		}
		if id, ok := threadID(); ok {
			schedStep(id)
		}
	}
	ParHook = func(fs []func()) {
		if len(sched) == 0 {
			for _, f := range fs {
				f()
			}
			return
		}
		schedMu.Lock()
		gids = map[int64]int{}
		wake = map[int]chan struct{}{0: make(chan struct{}, 1)}
		for i := range fs {
			wake[i+1] = make(chan struct{}, 1)
		}
		schedPos = 0
		schedMu.Unlock()
		var wg sync.WaitGroup
		var pmu sync.Mutex
		var panicVal interface{}
		ready := make(chan struct{}, len(fs))
		for i, f := range fs {
			i, f := i, f
			wg.Add(1)
			go func() {
				defer wg.Done()
				schedMu.Lock()
				gids[curGID()] = i + 1
				w := wake[i+1]
				schedMu.Unlock()
				ready <- struct{}{}
				<-w
				defer func() {
					if p := recover(); p != nil {
						pmu.Lock()
						if panicVal == nil {
							panicVal = p
						}
						pmu.Unlock()
						schedActive.Store(false)
						// release everybody
						schedMu.Lock()
						for _, c := range wake {
							select {
							case c <- struct{}{}:
							default:
							}
						}
						schedMu.Unlock()
						return
					}
					if !schedActive.Load() {
						return
					}
					// thread exit event
					schedMu.Lock()
					if schedPos >= len(sched) {
						schedBroken = "schedule log exhausted at thread exit"
						schedMu.Unlock()
						wake[0] <- struct{}{}
						return
					}
					next := sched[schedPos]
					schedPos++
					c := wake[next]
					schedMu.Unlock()
					c <- struct{}{}
				}()
				f()
			}()
		}
		for range fs {
			<-ready
		}
		schedActive.Store(true)
		schedMu.Lock()
		first := sched[0]
		schedPos = 1
		c := wake[first]
		m := wake[0]
		schedMu.Unlock()
		c <- struct{}{}
		<-m
		schedActive.Store(false)
		wg.Wait()
		if panicVal != nil {
			panic(panicVal)
		}
		if schedBroken != "" {
			mu.Lock()
			Failures = append(Failures, "SCHEDULE-REPLAY-DIVERGED: "+schedBroken)
			mu.Unlock()
		}
	}
}
