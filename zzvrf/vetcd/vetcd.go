// Package vetcd is the in-memory model of etcd used by the /verif harnesses
// (DESIGN.md §3.2). It implements clientv3.KV, clientv3.Txn and clientv3.Lease
// with linearizable single-store semantics: one global revision, per-key
// create/mod revision and version, leases whose expiry deletes attached keys.
// Every operation is one atomic step, a scheduling point and a fault site.
// The same source is interpreted symbolically by gosmt and compiled natively
// for replay, so there is one semantics, not two.
package vetcd

import (
	"bytes"
	"context"
	"errors"
	"sort"

	v "github.com/tikv/pd/pkg/zzvrf"
	"go.etcd.io/etcd/clientv3"
	pb "go.etcd.io/etcd/etcdserver/etcdserverpb"
	"go.etcd.io/etcd/mvcc/mvccpb"
)

// Fault kinds returned by Store.FaultFn.
const (
	FaultNone    = 0
	FaultFail    = 1 // the operation returns an error and has no effect
	FaultApplied = 2 // the operation is applied but the reply is lost (error returned)
)

var ErrInjected = errors.New("vetcd: injected fault")

type item struct {
	val     []byte
	create  int64
	mod     int64
	version int64
	lease   clientv3.LeaseID
}

type leaseInfo struct {
	ttl int64
}

// Store is one etcd cluster.
type Store struct {
	kvs       map[string]*item
	keys      []string // insertion order (deterministic iteration)
	rev       int64
	leases    map[clientv3.LeaseID]*leaseInfo
	nextLease int64
	members   []*pb.Member
	// FaultFn, if set, is asked before every operation ("get","put","delete","txn","grant","keepalive","revoke").
	FaultFn func(op string) int
	// Writes counts successful mutations (puts and deletes applied).
	Writes int
	// OnWrite, if set, is called after every applied put with the key and value.
	OnWrite func(key string, val []byte)
}

func New() *Store {
	return &Store{kvs: map[string]*item{}, rev: 1, leases: map[clientv3.LeaseID]*leaseInfo{}, nextLease: 100}
}

// Client returns a *clientv3.Client whose KV and Lease are this model.
func (s *Store) Client() *clientv3.Client {
	c := clientv3.NewCtxClient(context.Background())
	c.KV = &kvImpl{s: s}
	c.Lease = &leaseImpl{s: s}
	c.Cluster = &clusterImpl{s: s}
	return c
}

func (s *Store) fault(op string) int {
	v.Yield()
	if s.FaultFn == nil {
		return FaultNone
	}
	return s.FaultFn(op)
}

// --- direct access for harnesses (no faults, no yields) ---

func (s *Store) Has(key string) bool { _, ok := s.kvs[key]; return ok }

func (s *Store) Value(key string) []byte {
	if it, ok := s.kvs[key]; ok {
		return it.val
	}
	return nil
}

func (s *Store) SetRaw(key string, val []byte) { s.put(key, val, 0) }

func (s *Store) DeleteRaw(key string) { s.del(key) }

func (s *Store) Keys() []string {
	var out []string
	for _, k := range s.keys {
		if _, ok := s.kvs[k]; ok {
			out = append(out, k)
		}
	}
	sort.Strings(out)
	return out
}

func (s *Store) Rev() int64 { return s.rev }

func (s *Store) LeaseOf(key string) clientv3.LeaseID {
	if it, ok := s.kvs[key]; ok {
		return it.lease
	}
	return 0
}

func (s *Store) LeaseAlive(id clientv3.LeaseID) bool { _, ok := s.leases[id]; return ok }

// ExpireLease models the etcd-side expiry (or revocation) of a lease.
func (s *Store) ExpireLease(id clientv3.LeaseID) {
	if _, ok := s.leases[id]; !ok {
		return
	}
	delete(s.leases, id)
	var doomed []string
	for _, k := range s.keys {
		if it, ok := s.kvs[k]; ok && it.lease == id {
			doomed = append(doomed, k)
		}
	}
	if len(doomed) > 0 {
		s.rev++
		for _, k := range doomed {
			delete(s.kvs, k)
		}
	}
}

func (s *Store) put(key string, val []byte, lease clientv3.LeaseID) {
	it, ok := s.kvs[key]
	if !ok {
		it = &item{create: s.rev}
		s.kvs[key] = it
		seen := false
		for _, k := range s.keys {
			if k == key {
				seen = true
			}
		}
		if !seen {
			s.keys = append(s.keys, key)
		}
	}
	it.val = append([]byte(nil), val...)
	it.mod = s.rev
	it.version++
	it.lease = lease
	s.Writes++
	if s.OnWrite != nil {
		s.OnWrite(key, it.val)
	}
}

func (s *Store) del(key string) bool {
	if _, ok := s.kvs[key]; !ok {
		return false
	}
	delete(s.kvs, key)
	s.Writes++
	return true
}

func (s *Store) header() *pb.ResponseHeader { return &pb.ResponseHeader{Revision: s.rev} }

func (s *Store) kvOf(key string, it *item) *mvccpb.KeyValue {
	return &mvccpb.KeyValue{Key: []byte(key), Value: append([]byte(nil), it.val...), CreateRevision: it.create, ModRevision: it.mod, Version: it.version, Lease: int64(it.lease)}
}

// rangeKeys returns the existing keys selected by (key, end) in sorted order.
func (s *Store) rangeKeys(key, end []byte) []string {
	var out []string
	if len(end) == 0 {
		if _, ok := s.kvs[string(key)]; ok {
			out = append(out, string(key))
		}
		return out
	}
	all := len(end) == 1 && end[0] == 0
	for _, k := range s.keys {
		if _, ok := s.kvs[k]; !ok {
			continue
		}
		if k >= string(key) && (all || k < string(end)) {
			out = append(out, k)
		}
	}
	sort.Strings(out)
	return out
}

func (s *Store) doRange(op clientv3.Op) *pb.RangeResponse {
	keys := s.rangeKeys(op.KeyBytes(), op.RangeBytes())
	resp := &pb.RangeResponse{Header: s.header(), Count: int64(len(keys))}
	limit := op.VerifLimit()
	for i, k := range keys {
		if limit > 0 && int64(i) >= limit {
			resp.More = true
			break
		}
		if !op.IsCountOnly() {
			resp.Kvs = append(resp.Kvs, s.kvOf(k, s.kvs[k]))
		}
	}
	return resp
}

func (s *Store) applyOps(ops []clientv3.Op) []*pb.ResponseOp {
	var out []*pb.ResponseOp
	wrote := false
	for _, op := range ops {
		if op.IsPut() || op.IsDelete() {
			wrote = true
		}
	}
	if wrote {
		s.rev++
	}
	for _, op := range ops {
		switch {
		case op.IsGet():
			out = append(out, &pb.ResponseOp{Response: &pb.ResponseOp_ResponseRange{ResponseRange: s.doRange(op)}})
		case op.IsPut():
			s.put(string(op.KeyBytes()), op.ValueBytes(), op.VerifLeaseID())
			out = append(out, &pb.ResponseOp{Response: &pb.ResponseOp_ResponsePut{ResponsePut: &pb.PutResponse{Header: s.header()}}})
		case op.IsDelete():
			n := int64(0)
			for _, k := range s.rangeKeys(op.KeyBytes(), op.RangeBytes()) {
				if s.del(k) {
					n++
				}
			}
			out = append(out, &pb.ResponseOp{Response: &pb.ResponseOp_ResponseDeleteRange{ResponseDeleteRange: &pb.DeleteRangeResponse{Header: s.header(), Deleted: n}}})
		default:
			panic("vetcd: unsupported op in txn")
		}
	}
	return out
}

func cmpInt(a, b int64) int {
	switch {
	case a < b:
		return -1
	case a > b:
		return 1
	}
	return 0
}

func (s *Store) evalCmp(c clientv3.Cmp) bool {
	if len(c.RangeEnd) != 0 {
		panic("vetcd: range compares are not modelled")
	}
	it, ok := s.kvs[string(c.Key)]
	var r int
	switch c.Target {
	case pb.Compare_VALUE:
		if !ok {
			return false // etcd: a value compare on a missing key fails
		}
		r = bytes.Compare(it.val, c.TargetUnion.(*pb.Compare_Value).Value)
	case pb.Compare_CREATE:
		var x int64
		if ok {
			x = it.create
		}
		r = cmpInt(x, c.TargetUnion.(*pb.Compare_CreateRevision).CreateRevision)
	case pb.Compare_MOD:
		var x int64
		if ok {
			x = it.mod
		}
		r = cmpInt(x, c.TargetUnion.(*pb.Compare_ModRevision).ModRevision)
	case pb.Compare_VERSION:
		var x int64
		if ok {
			x = it.version
		}
		r = cmpInt(x, c.TargetUnion.(*pb.Compare_Version).Version)
	case pb.Compare_LEASE:
		var x int64
		if ok {
			x = int64(it.lease)
		}
		r = cmpInt(x, c.TargetUnion.(*pb.Compare_Lease).Lease)
	default:
		panic("vetcd: unsupported compare target")
	}
	switch c.Result {
	case pb.Compare_EQUAL:
		return r == 0
	case pb.Compare_NOT_EQUAL:
		return r != 0
	case pb.Compare_GREATER:
		return r > 0
	case pb.Compare_LESS:
		return r < 0
	}
	panic("vetcd: unsupported compare result")
}

// --- clientv3.KV ---

type kvImpl struct{ s *Store }

// VerifModel marks this KV as the model (see the patched clientv3.NewKV).
func (k *kvImpl) VerifModel() bool { return true }

func (k *kvImpl) Put(ctx context.Context, key, val string, opts ...clientv3.OpOption) (*clientv3.PutResponse, error) {
	s := k.s
	f := s.fault("put")
	if f == FaultFail {
		return nil, ErrInjected
	}
	op := clientv3.OpPut(key, val, opts...)
	s.rev++
	s.put(key, op.ValueBytes(), op.VerifLeaseID())
	if f == FaultApplied {
		return nil, ErrInjected
	}
	return &clientv3.PutResponse{Header: s.header()}, nil
}

func (k *kvImpl) Get(ctx context.Context, key string, opts ...clientv3.OpOption) (*clientv3.GetResponse, error) {
	s := k.s
	if s.fault("get") != FaultNone {
		return nil, ErrInjected
	}
	r := s.doRange(clientv3.OpGet(key, opts...))
	return (*clientv3.GetResponse)(r), nil
}

func (k *kvImpl) Delete(ctx context.Context, key string, opts ...clientv3.OpOption) (*clientv3.DeleteResponse, error) {
	s := k.s
	f := s.fault("delete")
	if f == FaultFail {
		return nil, ErrInjected
	}
	op := clientv3.OpDelete(key, opts...)
	n := int64(0)
	keys := s.rangeKeys(op.KeyBytes(), op.RangeBytes())
	if len(keys) > 0 {
		s.rev++
	}
	for _, kk := range keys {
		if s.del(kk) {
			n++
		}
	}
	if f == FaultApplied {
		return nil, ErrInjected
	}
	return &clientv3.DeleteResponse{Header: s.header(), Deleted: n}, nil
}

func (k *kvImpl) Compact(ctx context.Context, rev int64, opts ...clientv3.CompactOption) (*clientv3.CompactResponse, error) {
	return &clientv3.CompactResponse{}, nil
}

func (k *kvImpl) Do(ctx context.Context, op clientv3.Op) (clientv3.OpResponse, error) {
	panic("vetcd: KV.Do is not modelled")
}

func (k *kvImpl) Txn(ctx context.Context) clientv3.Txn { return &txn{s: k.s} }

type txn struct {
	s    *Store
	cmps []clientv3.Cmp
	then []clientv3.Op
	els  []clientv3.Op
}

func (t *txn) If(cs ...clientv3.Cmp) clientv3.Txn  { t.cmps = append(t.cmps, cs...); return t }
func (t *txn) Then(ops ...clientv3.Op) clientv3.Txn { t.then = append(t.then, ops...); return t }
func (t *txn) Else(ops ...clientv3.Op) clientv3.Txn { t.els = append(t.els, ops...); return t }

func (t *txn) Commit() (*clientv3.TxnResponse, error) {
	s := t.s
	f := s.fault("txn")
	if f == FaultFail {
		return nil, ErrInjected
	}
	ok := true
	for _, c := range t.cmps {
		if !s.evalCmp(c) {
			ok = false
		}
	}
	resp := &clientv3.TxnResponse{Succeeded: ok}
	if ok {
		resp.Responses = s.applyOps(t.then)
	} else {
		resp.Responses = s.applyOps(t.els)
	}
	resp.Header = s.header()
	if f == FaultApplied {
		return nil, ErrInjected
	}
	return resp, nil
}

// --- clientv3.Lease ---

type leaseImpl struct{ s *Store }

func (l *leaseImpl) VerifModel() bool { return true }

func (l *leaseImpl) Grant(ctx context.Context, ttl int64) (*clientv3.LeaseGrantResponse, error) {
	s := l.s
	if s.fault("grant") != FaultNone {
		return nil, ErrInjected
	}
	s.nextLease++
	id := clientv3.LeaseID(s.nextLease)
	s.leases[id] = &leaseInfo{ttl: ttl}
	return &clientv3.LeaseGrantResponse{ResponseHeader: s.header(), ID: id, TTL: ttl}, nil
}

func (l *leaseImpl) Revoke(ctx context.Context, id clientv3.LeaseID) (*clientv3.LeaseRevokeResponse, error) {
	s := l.s
	if s.fault("revoke") != FaultNone {
		return nil, ErrInjected
	}
	s.ExpireLease(id)
	return &clientv3.LeaseRevokeResponse{Header: s.header()}, nil
}

func (l *leaseImpl) TimeToLive(ctx context.Context, id clientv3.LeaseID, opts ...clientv3.LeaseOption) (*clientv3.LeaseTimeToLiveResponse, error) {
	panic("vetcd: TimeToLive is not modelled")
}

func (l *leaseImpl) Leases(ctx context.Context) (*clientv3.LeaseLeasesResponse, error) {
	panic("vetcd: Leases is not modelled")
}

func (l *leaseImpl) KeepAlive(ctx context.Context, id clientv3.LeaseID) (<-chan *clientv3.LeaseKeepAliveResponse, error) {
	panic("vetcd: KeepAlive streams are not modelled")
}

func (l *leaseImpl) KeepAliveOnce(ctx context.Context, id clientv3.LeaseID) (*clientv3.LeaseKeepAliveResponse, error) {
	s := l.s
	if s.fault("keepalive") != FaultNone {
		return nil, ErrInjected
	}
	li, ok := s.leases[id]
	if !ok {
		return nil, errors.New("vetcd: lease not found")
	}
	return &clientv3.LeaseKeepAliveResponse{ResponseHeader: s.header(), ID: id, TTL: li.ttl}, nil
}

func (l *leaseImpl) Close() error { return nil }

// --- clientv3.Cluster (member list only) ---

type clusterImpl struct{ s *Store }

// Members is the member list reported by MemberList (name, client URLs).
func (s *Store) SetMembers(ms []*pb.Member) { s.members = ms }

func (c *clusterImpl) MemberList(ctx context.Context) (*clientv3.MemberListResponse, error) {
	if c.s.fault("memberlist") != FaultNone {
		return nil, ErrInjected
	}
	return &clientv3.MemberListResponse{Header: c.s.header(), Members: c.s.members}, nil
}

func (c *clusterImpl) MemberAdd(ctx context.Context, peerAddrs []string) (*clientv3.MemberAddResponse, error) {
	panic("vetcd: MemberAdd is not modelled")
}

func (c *clusterImpl) MemberAddAsLearner(ctx context.Context, peerAddrs []string) (*clientv3.MemberAddResponse, error) {
	panic("vetcd: MemberAddAsLearner is not modelled")
}

func (c *clusterImpl) MemberRemove(ctx context.Context, id uint64) (*clientv3.MemberRemoveResponse, error) {
	panic("vetcd: MemberRemove is not modelled")
}

func (c *clusterImpl) MemberUpdate(ctx context.Context, id uint64, peerAddrs []string) (*clientv3.MemberUpdateResponse, error) {
	panic("vetcd: MemberUpdate is not modelled")
}

func (c *clusterImpl) MemberPromote(ctx context.Context, id uint64) (*clientv3.MemberPromoteResponse, error) {
	panic("vetcd: MemberPromote is not modelled")
}
